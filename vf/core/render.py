"""Canonical value -> Klong literal text that the real reader parses back to the same value."""
import math


class NotRenderable(Exception):
    pass


def _num(c, in_list):
    if c[0] == "I":
        s = str(c[1])
    else:
        x = c[1]
        if math.isnan(x) or math.isinf(x):
            raise NotRenderable("nan/inf")
        s = repr(float(x))
        if "e" in s and "." not in s:
            # 1e+16 -> 1.0e+16 (reader accepts both; keep a '.' for clarity)
            m, e = s.split("e")
            s = m + ".0e" + e
    if s.startswith("-") and not in_list:
        return "(" + s + ")"
    return s


def render(c, in_list=False):
    k = c[0]
    if k in ("I", "R"):
        return _num(c, in_list)
    if k == "C":
        return "0c" + c[1]
    if k == "S":
        return '"' + c[1].replace('"', '""') + '"'
    if k == "Y":
        return ":" + c[1]
    if k == "L":
        return "[" + " ".join(render(x, True) for x in c[1]) + "]"
    if k == "D":
        return ":{" + " ".join("[%s %s]" % (render(a, True), render(b, True)) for a, b in c[1]) + "}"
    raise NotRenderable(k)


def arg(c):
    """Text usable as an operand next to an operator: parenthesised when needed."""
    t = render(c)
    return t
