"""One shard of a check: python -m vf.core.shard PID tier seed idx n start outfile"""
import faulthandler
import json
import sys
import traceback

from . import env


def main(argv):
    pid, tier, seed, idx, n, start, out = argv[0], argv[1], int(argv[2]), int(argv[3]), int(argv[4]), int(argv[5]), argv[6]
    env.setup_paths()
    from .driver import load_check
    f = open(out, "a", buffering=1)

    def emit(o):
        f.write(json.dumps(o, default=str) + "\n")
        f.flush()

    try:
        mod = load_check(pid)
        all_cases = mod.cases(tier, seed)
        mine = list(range(idx, len(all_cases), n))
        ctx = mod.init_shard(tier, seed) if hasattr(mod, "init_shard") else None
    except BaseException:
        emit({"t": "init_error", "error": traceback.format_exc()[-3000:]})
        return 3
    case_timeout = getattr(mod, "CASE_TIMEOUT", 120)
    if isinstance(ctx, dict):
        notef = open(out + ".note", "w", encoding="utf8", errors="replace")

        def note(text):
            """What the case is doing right now; the driver reads it when the case never comes back."""
            notef.seek(0)
            notef.write(text)
            notef.truncate()
            notef.flush()
        ctx["_note"] = note
    mem_gb = getattr(mod, "MEM_LIMIT_GB", None)
    if mem_gb:
        # a program under test that asks for an absurd amount of memory gets MemoryError (an ordinary error outcome)
        # instead of taking the machine down (the kernel's OOM killer picks arbitrary victims)
        import resource
        cap = int(mem_gb * 2 ** 30)
        resource.setrlimit(resource.RLIMIT_AS, (cap, cap))
    for pos in range(start, len(mine)):
        i = mine[pos]
        emit({"t": "begin", "pos": pos, "i": i})
        faulthandler.dump_traceback_later(case_timeout, exit=True)
        try:
            for attempt in range(3):
                # a harness error (port taken, a helper thread that did not start in time on a loaded machine) says nothing
                # about the property: the case is run again before it is reported as such
                try:
                    res = mod.run_case(ctx, all_cases[i])
                except BaseException as e:
                    if isinstance(e, KeyboardInterrupt):
                        raise
                    res = {"harness_error": traceback.format_exc()[-3000:]}
                if not res.get("harness_error"):
                    if attempt:
                        res.setdefault("counters", {})["cases_rerun_after_harness_error"] = 1
                    break
        finally:
            faulthandler.cancel_dump_traceback_later()
        res["t"] = "case"
        res["pos"] = pos
        res["i"] = i
        emit(res)
    endrec = {"t": "end"}
    if hasattr(mod, "finish_shard"):
        try:
            endrec.update(mod.finish_shard(ctx) or {})
        except BaseException:
            endrec["finish_error"] = traceback.format_exc()[-2000:]
    emit(endrec)
    f.close()
    try:
        import os
        os.unlink(out + ".note")
    except OSError:
        pass
    return 0


if __name__ == "__main__":
    rc = main(sys.argv[1:])
    sys.stdout.flush()
    import os
    os._exit(rc)   # do not wait for stray daemon threads / loops of the code under test
