"""Canonical, representation-independent form of Klong values.

A canonical value is a small JSON-serialisable list:
  ["I", n] integer      ["R", x] real        ["C", ch] character   ["S", text] string
  ["Y", name] symbol    ["L", [..]] list     ["D", [[k, v], ..]] dictionary (sorted by key repr)
  ["U"] undefined       ["F", arity] function ["B", bool] leaked boolean
  ["N"] Python None     ["X", typename, repr] anything else
The form keeps everything the properties talk about (nesting, elements, integer / real /
character / string kind) and forgets numpy / torch / list representation.
"""
import math

import numpy as _np


def _is_torch(x):
    return type(x).__module__.startswith("torch")


def canon(v, _depth=0):
    from klongpy.types import KGSym, KGChar, KGFn, KGLambda, KGUndefined, KGFnWrapper
    if _depth > 60:
        return ["X", "deep", "..."]
    if v is None:
        return ["N"]
    if isinstance(v, KGUndefined) or type(v).__name__ == "KGUndefined":
        return ["U"]
    if isinstance(v, (bool, _np.bool_)):
        return ["B", bool(v)]
    if isinstance(v, KGSym):
        return ["Y", str(v)]
    if isinstance(v, KGChar) or (type(v).__name__ == "KGChar" and isinstance(v, str)):
        return ["C", str(v)]
    if isinstance(v, str):
        return ["S", str(v)]
    if isinstance(v, (int, _np.integer)):
        return ["I", int(v)]
    if isinstance(v, (float, _np.floating)):
        return ["R", float(v)]
    if isinstance(v, (complex, _np.complexfloating)):
        return ["X", "complex", complex(v).real, complex(v).imag]
    if isinstance(v, dict):
        items = [[canon(k, _depth + 1), canon(x, _depth + 1)] for k, x in v.items()]
        items.sort(key=_dkey)
        return ["D", items]
    if _is_torch(v) and hasattr(v, "detach"):
        t = v.detach().cpu()
        if t.ndim == 0:
            x = t.item()
            if isinstance(x, bool):
                return ["B", x]
            if isinstance(x, complex):
                return ["X", "complex", x.real, x.imag]
            return ["I", x] if isinstance(x, int) else ["R", float(x)]
        return canon(t.numpy(), _depth)
    if isinstance(v, _np.ndarray):
        if v.ndim == 0:
            return canon(v.item(), _depth + 1)
        k = v.dtype.kind
        if k in "iu":
            return _fast(v.tolist(), "I")
        if k == "f":
            return _fast(v.tolist(), "R")
        if k == "b":
            return _fast(v.tolist(), "B")
        return ["L", [canon(x, _depth + 1) for x in v]]
    if isinstance(v, (list, tuple)):
        return ["L", [canon(x, _depth + 1) for x in v]]
    if type(v).__module__.startswith("pandas") and hasattr(v, "to_numpy") and hasattr(v, "__len__"):
        # a pandas extension array (e.g. the string dtype's column values): judged by its elements
        return ["L", [canon(x, _depth + 1) for x in list(v)]]
    if isinstance(v, (KGFn, KGLambda, KGFnWrapper)):
        ar = getattr(v, "arity", None)
        if ar is None and hasattr(v, "get_arity"):
            ar = v.get_arity()
        if ar is None and isinstance(v, KGFnWrapper):
            ar = getattr(v.fn, "arity", None)
        return ["F", ar]
    if callable(v):
        return ["F", None]
    return ["X", type(v).__name__, repr(v)[:80]]


def _dkey(kv):
    k = kv[0]
    if k[0] in ("I", "R"):
        return "0num:%024.9f" % (float(k[1]) + 1e12)
    return repr(k)


def _fast(x, tag):
    if isinstance(x, list):
        return ["L", [_fast(e, tag) for e in x]]
    return [tag, x]


def kind(c):
    return c[0]


def is_list(c):
    return c[0] == "L"


def _num_close(x, y, rel, ab):
    if isinstance(x, float) and isinstance(y, float):
        if math.isnan(x) and math.isnan(y):
            return True
        if math.isinf(x) or math.isinf(y):
            return x == y
    if x == y:
        return True
    try:
        return abs(x - y) <= max(ab, rel * max(abs(x), abs(y)))
    except OverflowError:
        return False


MODES = {
    # mode: (rel, abs, kinds_must_agree)
    "exact": (1e-12, 0.0, True),
    "match": (1e-9, 1e-12, False),     # Klong ~ : integer 1 matches real 1.0
    "f32": (2e-4, 2e-5, True),
    "f32loose": (2e-4, 2e-5, False),
}


def same(a, b, mode="exact"):
    """Compare two canonical values. Returns None when they agree, otherwise a short
    difference kind: 'kind', 'structure' or 'value'."""
    rel, ab, strict = MODES[mode]
    return _same(a, b, rel, ab, strict)


def _same(a, b, rel, ab, strict):
    ka, kb = a[0], b[0]
    num = ("I", "R")
    if ka in num and kb in num:
        if ka != kb and strict:
            return "kind"
        return None if _num_close(a[1], b[1], rel, ab) else "value"
    if ka != kb:
        if ka == "L" or kb == "L":
            # empty list vs empty string are distinct kinds, not structures
            return "structure" if not (ka in ("L", "S") and kb in ("L", "S")) else "kind"
        return "kind"
    if ka == "L":
        if len(a[1]) != len(b[1]):
            return "structure"
        worst = None
        for x, y in zip(a[1], b[1]):
            d = _same(x, y, rel, ab, strict)
            if d == "structure":
                return d
            if d == "kind" or (d and worst is None):
                worst = d if worst != "kind" else worst
        return worst
    if ka == "D":
        if len(a[1]) != len(b[1]):
            return "structure"
        worst = None
        for (k1, v1), (k2, v2) in zip(a[1], b[1]):
            d = _same(k1, k2, rel, ab, strict) or _same(v1, v2, rel, ab, strict)
            if d:
                worst = worst or d
        return worst
    if ka in ("U", "N"):
        return None
    if ka == "F":
        return None if (a[1] == b[1] or a[1] is None or b[1] is None) else "value"
    if ka == "X" and a[1] == "complex" and b[1] == "complex":
        return None if (_num_close(a[2], b[2], rel, max(ab, 1e-9)) and _num_close(a[3], b[3], rel, max(ab, 1e-9))) else "value"
    return None if a[1:] == b[1:] else "value"


def shape_class(c):
    """Coarse class of a canonical value, for coverage accounting and finding keys."""
    k = c[0]
    if k == "I":
        return "int0" if c[1] == 0 else ("int+" if c[1] > 0 else "int-")
    if k == "R":
        return "real"
    if k == "C":
        return "char"
    if k == "Y":
        return "sym"
    if k == "S":
        n = len(c[1])
        return "str0" if n == 0 else ("str1" if n == 1 else "strN")
    if k == "D":
        return "dict"
    if k == "U":
        return "undef"
    if k == "F":
        return "fn"
    if k == "B":
        return "bool"
    if k != "L":
        return "other"
    xs = c[1]
    if not xs:
        return "list0"
    kinds = {x[0] for x in xs}
    if "L" not in kinds:
        if kinds <= {"I"}:
            return "vecI"
        if kinds <= {"R"} or kinds <= {"I", "R"}:
            return "vecR"
        if kinds <= {"C"}:
            return "vecC"
        if kinds <= {"S"}:
            return "vecS"
        if kinds <= {"Y"}:
            return "vecY"
        return "vecMixed"
    sh = rect_shape(c)
    if sh is not None:
        return "mat" if len(sh) == 2 else "rank%d" % len(sh)
    if kinds == {"L"}:
        return "ragged" if all(shape_class(x) in ("vecI", "vecR", "list0", "vecC", "vecS", "vecMixed") for x in xs) else "nested"
    return "nested"


def rect_shape(c):
    """Shape of a rectangular array of atoms (strings count as atoms), else None."""
    if c[0] != "L":
        return ()
    xs = c[1]
    if not xs:
        return (0,)
    subs = [rect_shape(x) for x in xs]
    if any(s is None for s in subs) or any(s != subs[0] for s in subs):
        return None
    if subs[0] == (0,):
        return None
    return (len(xs),) + subs[0]


def depth(c):
    if c[0] != "L":
        return 0
    return 1 + max([depth(x) for x in c[1]], default=0)


def brief(c, limit=120):
    """Short human-readable text of a canonical value (Klong-ish)."""
    s = _brief(c)
    return s if len(s) <= limit else s[:limit - 3] + "..."


def _brief(c):
    k = c[0]
    if k == "I":
        return str(c[1])
    if k == "R":
        return repr(c[1])
    if k == "C":
        return "0c" + c[1]
    if k == "S":
        return '"' + c[1].replace('"', '""') + '"'
    if k == "Y":
        return ":" + c[1]
    if k == "L":
        return "[" + " ".join(_brief(x) for x in c[1]) + "]"
    if k == "D":
        return ":{" + " ".join("[%s %s]" % (_brief(a), _brief(b)) for a, b in c[1]) + "}"
    if k == "U":
        return ":undefined"
    if k == "F":
        return ":fn/%s" % c[1]
    if k == "B":
        return "True" if c[1] else "False"
    if k == "N":
        return "None"
    return "<%s>" % " ".join(str(x) for x in c[1:])


# constructors used by generators / models
def I(n): return ["I", int(n)]
def R(x): return ["R", float(x)]
def C(ch): return ["C", ch]
def S(t): return ["S", t]
def Y(n): return ["Y", n]
def L(xs): return ["L", list(xs)]
def D(items): return ["D", sorted([[k, v] for k, v in items], key=_dkey)]
U = ["U"]
