"""Process environment: where the source under test is, where scratch space is, third-party deps."""
import fcntl
import os
import subprocess
import sys
import tempfile

VERIF = os.path.dirname(os.path.dirname(os.path.dirname(os.path.abspath(__file__))))
REPO = os.environ.get("VERIF_REPO", "/repo")
DEPS = os.path.join(VERIF, ".deps")
PY = "/venv/bin/python"
WHEELS = "/opt/veriftools/wheels"


def scratch_root():
    r = os.environ.get("VERIF_SCRATCH")
    if r:
        os.makedirs(r, exist_ok=True)
        return r
    if os.path.isdir("/dev/shm") and os.access("/dev/shm", os.W_OK):
        return "/dev/shm"
    return tempfile.gettempdir()


def mkscratch(prefix):
    return tempfile.mkdtemp(prefix="vf-" + prefix + "-", dir=scratch_root())


def ensure_deps():
    """Install icontract / deal from the offline wheelhouse into /verif/.deps (idempotent)."""
    marker = os.path.join(DEPS, ".ok")
    if os.path.exists(marker):
        return True
    os.makedirs(DEPS, exist_ok=True)
    with open(os.path.join(DEPS, ".lock"), "w") as lk:
        fcntl.flock(lk, fcntl.LOCK_EX)
        if os.path.exists(marker):
            return True
        env = dict(os.environ, PIP_NO_INDEX="1", PIP_DISABLE_PIP_VERSION_CHECK="1")
        r = subprocess.run([PY, "-m", "pip", "install", "-q", "--no-index", "--find-links", WHEELS,
                            "--target", DEPS, "icontract", "deal"],
                           env=env, capture_output=True, text=True)
        if r.returncode != 0:
            sys.stderr.write("deps install failed:\n" + r.stdout + r.stderr)
            return False
        open(marker, "w").write("ok\n")
    return True


def setup_paths():
    """Put the source under test first on sys.path, the third-party deps last."""
    if REPO in sys.path:
        sys.path.remove(REPO)
    sys.path.insert(0, REPO)
    if VERIF not in sys.path:
        sys.path.insert(1, VERIF)
    if os.path.isdir(DEPS) and DEPS not in sys.path:
        sys.path.append(DEPS)


def child_env():
    env = dict(os.environ)
    env["PYTHONHASHSEED"] = "0"
    env["PYTHONPATH"] = REPO + os.pathsep + VERIF + os.pathsep + DEPS
    env["PYTHONDONTWRITEBYTECODE"] = "1"
    env["PYTHONWARNINGS"] = "ignore"
    env.setdefault("OMP_NUM_THREADS", "1")
    env.setdefault("MKL_NUM_THREADS", "1")
    env.setdefault("OPENBLAS_NUM_THREADS", "1")
    return env
