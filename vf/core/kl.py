"""Thin helpers around the real KlongInterpreter (public boundary only)."""
import io
import sys

from .canon import canon


class Out(io.StringIO):
    def take(self):
        s = self.getvalue()
        self.seek(0)
        self.truncate(0)
        return s


def new(backend=None, device=None):
    """A fresh real interpreter whose .cout/.cerr are captured buffers (k._vf_out)."""
    from klongpy import KlongInterpreter
    buf = Out()
    o, e = sys.stdout, sys.stderr
    sys.stdout = buf
    sys.stderr = buf
    try:
        if backend == "torch":
            k = KlongInterpreter(backend="torch", device=device or "cpu")
        else:
            k = KlongInterpreter(backend=backend) if backend else KlongInterpreter()
    finally:
        sys.stdout, sys.stderr = o, e
    k._vf_out = buf
    return k


def ev(k, text):
    """Evaluate source text. ('ok', python value) or ('err', exception type name, message)."""
    try:
        return ("ok", k(text))
    except RecursionError as e:
        return ("err", "RecursionError", "")
    except BaseException as e:
        if isinstance(e, (KeyboardInterrupt, SystemExit)):
            raise
        return ("err", type(e).__name__, str(e)[:200])


def evc(k, text):
    """Like ev but the value is canonicalised."""
    r = ev(k, text)
    if r[0] == "ok":
        try:
            return ("ok", canon(r[1]))
        except RecursionError:
            return ("err", "RecursionError(canon)", "")
    return r


def topy(c, k):
    """Build the Python/Klong runtime value of a canonical value, the way the reader would."""
    from klongpy.types import KGSym, KGChar, KLONG_UNDEFINED
    t = c[0]
    if t == "I":
        return int(c[1])
    if t == "R":
        return float(c[1])
    if t == "C":
        return KGChar(c[1])
    if t == "S":
        return str(c[1])
    if t == "Y":
        return KGSym(c[1])
    if t == "U":
        return KLONG_UNDEFINED
    if t == "L":
        return k._backend.kg_asarray([topy(x, k) for x in c[1]])
    if t == "D":
        return {topy(a, k): topy(b, k) for a, b in c[1]}
    raise ValueError("cannot build " + t)


def deep_repr(v, depth=0):
    """Hidden-representation fingerprint of a value: dtype / dimensionality tree (not its contents)."""
    import numpy as np
    if isinstance(v, np.ndarray):
        t = str(v.dtype) + (str(tuple(v.shape)) if v.ndim > 1 else "")
        if v.dtype == object and depth < 4 and v.ndim == 1:
            inner = sorted({deep_repr(x, depth + 1) for x in v})
            t += "[" + ",".join(inner) + "]"
        return t
    if isinstance(v, list):
        return "pylist"
    if isinstance(v, np.generic):
        return str(v.dtype)
    return type(v).__name__


def user_vars(k):
    """Canonical snapshot of the user-visible (non system) variables, with Python type tags."""
    from klongpy.utils import ReadonlyDict
    snap = {}
    ctxs = list(k._context._context)
    for d in ctxs:
        if isinstance(d, ReadonlyDict):
            continue
        for name, v in list(d.items()):
            s = str(name)
            if s.startswith("."):
                continue
            if s not in snap:
                snap[s] = [canon(v), type(v).__name__ + ":" + deep_repr(v)]
    return snap


def value_size(v, cap=100000):
    """Number of leaves of a runtime value, counted only up to `cap` (cheap guard against runaway workloads)."""
    import numpy as np
    n = 0
    stack = [v]
    while stack and n <= cap:
        x = stack.pop()
        if isinstance(x, np.ndarray):
            if x.dtype == object:
                stack.extend(x.ravel().tolist())
            else:
                n += int(x.size)
        elif isinstance(x, (list, tuple)):
            stack.extend(x)
        elif isinstance(x, dict):
            stack.extend(x.keys())
            stack.extend(x.values())
        elif isinstance(x, str):
            n += 1 + len(x) // 64
        else:
            n += 1
    return n


def state_size(k, cap=100000):
    from klongpy.utils import ReadonlyDict
    n = 0
    for d in list(k._context._context):
        if isinstance(d, ReadonlyDict):
            continue
        for name, v in list(d.items()):
            if not str(name).startswith("."):
                n += value_size(v, cap)
                if n > cap:
                    return n
    return n
