"""The closed, seed-independent value universe (canonical values) plus seeded extras."""
import random

from .canon import I, R, C, S, Y, L, D

INTS = [0, 1, -1, 2, 3, 5, -7, 10, 255, 2 ** 31, 2 ** 62]
REALS = [0.0, 0.5, -1.5, 2.0, 3.75, 1e10, 1.25e-3, -2.5e-7]
CHARS = ["a", "Z", "7", " ", '"']
STRINGS = ["", "a", "hello", "two words", 'say "hi"', "line\nbreak", "[x]", ':"c', "aab", "foobar"]
SYMS = ["a", "foo", "x1"]


def atoms():
    out = [I(n) for n in INTS] + [R(x) for x in REALS] + [C(c) for c in CHARS]
    out += [S(s) for s in STRINGS] + [Y(s) for s in SYMS]
    return out


def vectors():
    v = [L([])]
    v += [L([I(x) for x in xs]) for xs in ([1], [1, 2], [3, 1, 2], [0, 0, 1], [5, -7, 2, 2], [1, 2, 3, 4, 5], [4, 4, 4])]
    v += [L([R(x) for x in xs]) for xs in ([0.5], [1.5, -2.0], [2.0, 0.5, 3.75], [1.0, 2.0, 3.0, 4.0])]
    v += [L([I(1), R(2.5), I(3)])]
    v += [L([C(c) for c in "ab"]), L([C("x")])]
    v += [L([S("ab"), S("cd")]), L([S("b"), S("abc"), S("")]), L([S("aa"), S("aa"), S("b")])]
    v += [L([Y("a"), Y("b")])]
    v += [L([I(1), S("a"), C("c")]), L([I(1), Y("s"), R(2.0)])]
    return v


def _mat(rows):
    return L([L([I(x) if isinstance(x, int) else R(x) for x in r]) for r in rows])


def matrices():
    return [
        _mat([[1, 2, 3]]), _mat([[1], [2], [3]]), _mat([[1, 2], [3, 4]]),
        _mat([[1, 2, 3], [4, 5, 6]]), _mat([[1, 2], [3, 4], [5, 6]]),
        _mat([[1.5, 2.0], [0.5, -1.0]]),
        L([_mat([[1, 2], [3, 4]]), _mat([[5, 6], [7, 8]])]),      # 2x2x2
    ]


def nested():
    return [
        L([L([I(1)]), L([I(2), I(3)])]),
        L([I(1), L([I(2), L([I(3)])])]),
        L([L([]), L([I(1)])]),
        L([L([I(1), I(2)]), I(3)]),
        L([S("ab"), L([I(1), I(2)])]),
        L([L([L([I(1)])])]),
        L([L([]), L([])]),
    ]


def dicts():
    return [
        D([]),
        D([(I(1), I(2))]),
        D([(S("a"), I(1)), (S("b"), L([I(1), I(2)]))]),
        D([(Y("k"), S("v")), (C("c"), R(1.5)), (R(2.5), I(0))]),
    ]


def universe(with_dicts=False):
    u = atoms() + vectors() + matrices() + nested()
    if with_dicts:
        u += dicts()
    return u


# ---------------------------------------------------------------- seeded random extras

def rand_atom(rng, kinds="IRCSY"):
    k = rng.choice(kinds)
    if k == "I":
        return I(rng.choice([rng.randint(-20, 20), rng.randint(-10 ** 6, 10 ** 6), rng.choice(INTS)]))
    if k == "R":
        return R(rng.choice([round(rng.uniform(-50, 50), 3), rng.choice(REALS), rng.randint(-5, 5) + 0.5]))
    if k == "C":
        return C(rng.choice("abcxyzAB019 _\"'[]:"))
    if k == "S":
        n = rng.randint(0, 6)
        return S("".join(rng.choice('abc xyz"[]:0\n') for _ in range(n)))
    return Y(rng.choice(["a", "b", "foo", "k1"]))


def rand_value(rng, depth=2, kinds="IRCSY", maxlen=5):
    if depth == 0 or rng.random() < 0.35:
        return rand_atom(rng, kinds)
    n = rng.randint(0, maxlen)
    style = rng.random()
    if style < 0.4:
        k = rng.choice(kinds)
        return L([rand_atom(rng, k) for _ in range(n)])
    return L([rand_value(rng, depth - 1, kinds, maxlen) for _ in range(n)])


def rand_numeric(rng, depth=2, maxlen=4, reals=True):
    """Numeric atom / vector / rectangular matrix / nested numeric list."""
    kinds = "IR" if reals else "I"
    r = rng.random()
    if depth == 0 or r < 0.3:
        return rand_atom(rng, kinds)
    if r < 0.6:
        k = rng.choice(kinds)
        return L([rand_atom(rng, k) for _ in range(rng.randint(0, maxlen))])
    if r < 0.8:
        k = rng.choice(kinds)
        rows, cols = rng.randint(1, 3), rng.randint(1, 3)
        return L([L([rand_atom(rng, k) for _ in range(cols)]) for _ in range(rows)])
    return L([rand_numeric(rng, depth - 1, maxlen, reals) for _ in range(rng.randint(1, maxlen))])
