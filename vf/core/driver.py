"""Check driver: shards a check's case list over subprocesses, aggregates the monitors'
observations, classifies violations against known_findings.json, writes evidence, prints
the three-valued verdict.

A check module (vf/checks/cNN.py) provides
  PROPERTY, LEVEL, RULE, ASSUMPTIONS, MIN_COUNTS (dict counter -> minimum, 'nontrivial' special)
  cases(tier, seed) -> list of JSON-serialisable cases (deterministic)
  init_shard(tier, seed) -> ctx                     (optional)
  run_case(ctx, case) -> {"nontrivial": bool, "key": str, "counters": {..},
                          "violations": [{"sig": str, "what": str, "detail": {...}}],
                          "show": optional short text of the case for samples}
  finish_shard(ctx) -> {"counters": {...}}           (optional)
  CASE_TIMEOUT (s, watchdog per case), SERIAL (bool: run in one process)
"""
import hashlib
import importlib
import json
import os
import re
import shutil
import subprocess
import sys
import time
from concurrent.futures import ThreadPoolExecutor

from . import env

EXIT_OK, EXIT_VIOLATION, EXIT_INCONCLUSIVE = 0, 1, 2


def load_check(pid):
    return importlib.import_module("vf.checks." + pid.lower())


def load_findings():
    p = os.path.join(env.VERIF, "known_findings.json")
    if not os.path.exists(p):
        return {"findings": [], "fixed": []}
    return json.load(open(p))


def match_known(sig, known):
    """A finding key is a mechanism signature; '*' inside a key matches any run of characters
    (used where one defect shows under many operand classes)."""
    if sig in known:
        return sig
    for k in known:
        if "*" in k:
            rx = "^" + ".*".join(re.escape(part) for part in k.split("*")) + "$"
            if re.match(rx, sig, re.S):
                return k
    return None


def case_id(case):
    return hashlib.sha1(json.dumps(case, sort_keys=True, default=str).encode()).hexdigest()[:12]


def _run_shard_proc(pid, tier, seed, idx, n, start, out, timeout):
    cmd = [env.PY, "-X", "faulthandler", "-m", "vf.core.shard", pid, tier, str(seed), str(idx), str(n), str(start), out]
    try:
        r = subprocess.run(cmd, env=env.child_env(), cwd=env.VERIF, capture_output=True, text=True, timeout=timeout)
        return r.returncode, (r.stderr or "")[-4000:]
    except subprocess.TimeoutExpired as e:
        err = e.stderr
        if isinstance(err, bytes):
            err = err.decode("utf8", "replace")
        return "timeout", (err or "")[-4000:]


def _read_jsonl(path):
    out = []
    if not os.path.exists(path):
        return out
    with open(path) as f:
        for line in f:
            line = line.strip()
            if not line:
                continue
            try:
                out.append(json.loads(line))
            except ValueError:
                pass
    return out


def _shard_worker(pid, tier, seed, idx, n, total, scratch, shard_timeout):
    """Run shard idx to completion, restarting after a case that killed the process."""
    records, incon = [], []
    start = 0
    attempt = 0
    my_total = len(range(idx, total, n))
    while start < my_total and attempt < 25:
        out = os.path.join(scratch, "s%d-%d.jsonl" % (idx, attempt))
        rc, err = _run_shard_proc(pid, tier, seed, idx, n, start, out, shard_timeout)
        recs = _read_jsonl(out)
        note = None
        try:
            with open(out + ".note", encoding="utf8", errors="replace") as nf:
                note = nf.read()
            os.unlink(out + ".note")
        except OSError:
            pass
        try:
            os.unlink(out)
        except OSError:
            pass
        done_pos = start
        begun = None
        finished = False
        for r in recs:
            if r.get("t") == "begin":
                begun = r["pos"]
            elif r.get("t") == "case":
                records.append(r)
                done_pos = r["pos"] + 1
                begun = None
            elif r.get("t") == "end":
                records.append(r)
                finished = True
            elif r.get("t") == "init_error":
                incon.append({"reason": "init_error", "detail": r.get("error")})
                return records, incon
        if finished:
            break
        # the process died or was stopped while a case was running
        if begun is not None:
            # a check may say that a case which never came back is itself what its property forbids (see on_case_killed)
            verdict = None
            try:
                mod = load_check(pid)
                if hasattr(mod, "on_case_killed"):
                    verdict = mod.on_case_killed(rc, err, note)
            except Exception:
                verdict = None
            if verdict:
                records.append({"t": "case", "pos": begun, "i": idx + begun * n, "violations": [verdict], "evaluations": 0, "counters": {"cases_that_never_returned": 1}})
            else:
                incon.append({"reason": "case killed the shard (rc=%s)" % rc, "pos": begun, "stderr": err[-1500:]})
            start = begun + 1
        else:
            incon.append({"reason": "shard ended early (rc=%s)" % rc, "pos": done_pos, "stderr": err[-1500:]})
            if done_pos == start:
                start = done_pos + 1
            else:
                start = done_pos
        attempt += 1
    return records, incon


def run_check(pid, tier, seed, jobs=None):
    t0 = time.time()
    mod = load_check(pid)
    jobs = jobs or int(os.environ.get("VERIF_JOBS", "16"))
    all_cases = mod.cases(tier, seed)
    total = len(all_cases)
    serial = getattr(mod, "SERIAL", False)
    n = 1 if serial else max(1, min(jobs, total // max(1, getattr(mod, "MIN_SHARD", 20)) or 1))
    scratch = env.mkscratch(pid)
    shard_timeout = getattr(mod, "SHARD_TIMEOUT", {"quick": 900, "thorough": 7200})[tier]
    records, incon = [], []
    try:
        with ThreadPoolExecutor(max_workers=n) as ex:
            futs = [ex.submit(_shard_worker, pid, tier, seed, i, n, total, scratch, shard_timeout) for i in range(n)]
            for f in futs:
                r, ic = f.result()
                records += r
                incon += ic
    finally:
        shutil.rmtree(scratch, ignore_errors=True)
    return finish(pid, mod, tier, seed, all_cases, records, incon, time.time() - t0)


def finish(pid, mod, tier, seed, all_cases, records, incon, wall):
    counters = {}
    keys = set()
    extra_distinct = 0
    evaluations = 0
    samples = []
    violations = []
    harness_errors = []

    def addc(cs):
        for k, v in (cs or {}).items():
            if isinstance(v, (int, float)):
                counters[k] = counters.get(k, 0) + v
            elif isinstance(v, list):
                s = counters.setdefault(k, [])
                for x in v:
                    if x not in s and len(s) < 400:
                        s.append(x)

    for r in records:
        if r.get("t") == "end":
            addc(r.get("counters"))
            continue
        evaluations += r.get("evaluations", 1)
        addc(r.get("counters"))
        if r.get("harness_error"):
            harness_errors.append({"index": r["i"], "error": r["harness_error"]})
            continue
        if r.get("distinct_count"):
            # batch of cases that are distinct by construction (the generator de-duplicates)
            extra_distinct += int(r["distinct_count"])
            if len(samples) < 6 and r.get("show") is not None:
                samples.append(r["show"])
        elif r.get("nontrivial"):
            for k in (r.get("keys") or [r.get("key") or ("case:%d" % r["i"])]):
                keys.add(k)
            if len(samples) < 6 and r.get("show") is not None:
                samples.append(r["show"])
        for v in r.get("violations") or []:
            v = dict(v)
            v["index"] = r["i"]
            violations.append(v)

    kf = load_findings()
    known = {f["key"]: f for f in kf.get("findings", []) if f.get("property") == pid}
    known_seen, unknown = {}, []
    for v in violations:
        kk = match_known(v["sig"], known)
        if kk is not None:
            known_seen.setdefault(kk, []).append(v)
        else:
            unknown.append(v)

    # replay files for unlisted violations (one per distinct signature, first witness)
    replay_paths = []
    by_sig = {}
    for v in unknown:
        by_sig.setdefault(v["sig"], []).append(v)
    if by_sig:
        rdir = os.path.join(env.VERIF, "replays", pid)
        os.makedirs(rdir, exist_ok=True)
        for sig, vs in sorted(by_sig.items()):
            v = vs[0]
            case = all_cases[v["index"]]
            path = os.path.join(rdir, "%s-%s.json" % (hashlib.sha1(sig.encode()).hexdigest()[:8], case_id(case)))
            with open(path, "w") as f:
                json.dump({"property": pid, "tier": tier, "seed": seed, "sig": sig, "what": v.get("what"),
                           "detail": v.get("detail"), "case": case, "same_signature_cases": len(vs)}, f, indent=1, default=str)
            replay_paths.append((sig, path, v.get("what")))

    extra = {}
    if hasattr(mod, "extra_coverage"):
        try:
            extra = mod.extra_coverage(tier, counters) or {}
        except Exception as e:  # pragma: no cover
            extra = {"extra_coverage_error": repr(e)}

    # minimum monitor counts
    short = []
    mins = dict(getattr(mod, "MIN_COUNTS", {}))
    if isinstance(mins.get(tier), dict):
        mins = mins[tier]
    else:
        mins = {k: v for k, v in mins.items() if not isinstance(v, dict)}
    for k, m in mins.items():
        have = (len(keys) + extra_distinct) if k == "nontrivial" else counters.get(k, 0)
        if isinstance(have, list):
            have = len(have)
        if have < m:
            short.append("%s=%s<%s" % (k, have, m))

    if not samples:
        samples = [r.get("show") for r in records if r.get("show") is not None][:3]
    if not samples:
        samples = [all_cases[i] for i in range(min(3, len(all_cases)))]

    coverage = {
        "evaluations": evaluations,
        "distinct_nontrivial": len(keys) + extra_distinct,
        "rule": mod.RULE,
        "samples": samples,
        "cases_generated": len(all_cases),
        "counters": {k: (v if not isinstance(v, list) else v[:60]) for k, v in sorted(counters.items())},
        "known_findings_seen": {k: len(v) for k, v in sorted(known_seen.items())},
        "unlisted_violation_signatures": sorted(by_sig.keys())[:400],
        "inconclusive": incon[:20],
        "harness_errors": harness_errors[:20],
        "minimum_counts": mins,
        "exhaustive": bool(getattr(mod, "EXHAUSTIVE", {}).get(tier, False)) if isinstance(getattr(mod, "EXHAUSTIVE", None), dict) else False,
    }
    coverage.update(extra)
    ev = {
        "property_id": pid, "tier": tier, "seed": seed, "level": mod.LEVEL,
        "coverage": coverage, "assumptions": list(mod.ASSUMPTIONS),
        "wall_s": round(wall, 2), "violations": len(unknown),
        "verdict": None,
    }

    if unknown:
        verdict, code = "violated", EXIT_VIOLATION
    elif incon or harness_errors or short:
        verdict, code = "inconclusive", EXIT_INCONCLUSIVE
    else:
        verdict, code = "held", EXIT_OK
    ev["verdict"] = verdict
    os.makedirs(os.path.join(env.VERIF, "evidence"), exist_ok=True)
    with open(os.path.join(env.VERIF, "evidence", pid + ".json"), "w") as f:
        json.dump(ev, f, indent=1, default=str)
        f.write("\n")

    for sig in sorted(known_seen):
        print("KNOWN-FINDING: property=%s %s [%s] (seen %d times)" % (pid, known[sig].get("what", ""), sig, len(known_seen[sig])))
    brief_counts = " ".join("%s=%s" % (k, v) for k, v in sorted(counters.items()) if isinstance(v, (int, float)))[:900]
    if unknown:
        for sig, path, what in replay_paths[:40]:
            print("VIOLATION property=%s replay=%s  # %s :: %s" % (pid, path, sig, (what or "")[:200]))
        print("SUMMARY property=%s violations=%d distinct_signatures=%d evaluations=%d" % (pid, len(unknown), len(by_sig), evaluations))
    elif code == EXIT_INCONCLUSIVE:
        reason = "; ".join((["below minimum: " + ",".join(short)] if short else [])
                           + (["%d shard problems: %s" % (len(incon), incon[0].get("reason"))] if incon else [])
                           + (["%d harness errors: %s" % (len(harness_errors), str(harness_errors[0]["error"])[:300])] if harness_errors else []))
        print("INCONCLUSIVE property=%s reason=%s" % (pid, reason))
    else:
        print("OK property=%s tier=%s seed=%d evaluations=%d distinct_nontrivial=%d wall=%.1fs %s"
              % (pid, tier, seed, evaluations, len(keys) + extra_distinct, wall, brief_counts))
    return code


def replay(pid, path):
    env.setup_paths()
    mod = load_check(pid)
    data = json.load(open(path))
    case = data["case"] if "case" in data else data
    tier, seed = data.get("tier", "quick"), data.get("seed", 0)
    ctx = mod.init_shard(tier, seed) if hasattr(mod, "init_shard") else None
    res = mod.run_case(ctx, case)
    print(json.dumps(res, indent=1, default=str)[:6000])
    kf = load_findings()
    known = {f["key"]: f for f in kf.get("findings", []) if f.get("property") == pid}
    bad = [v for v in res.get("violations") or [] if match_known(v["sig"], known) is None]
    if bad:
        print("VIOLATION property=%s replay=%s" % (pid, path))
        return EXIT_VIOLATION
    print("OK property=%s replay held" % pid)
    return EXIT_OK


def main(argv):
    if len(argv) < 1:
        print("usage: check <ID> [quick|thorough] [--replay file]")
        return 64
    pid = argv[0].upper()
    tier = os.environ.get("VERIF_TIER") or "quick"
    rp = None
    rest = argv[1:]
    i = 0
    while i < len(rest):
        if rest[i] == "--replay":
            rp = rest[i + 1]
            i += 2
            continue
        if rest[i] in ("quick", "thorough") and not os.environ.get("VERIF_TIER"):
            tier = rest[i]
        i += 1
    seed = int(os.environ.get("VERIF_SEED", "0") or 0)
    if not env.ensure_deps():
        print("INCONCLUSIVE property=%s reason=third-party deps could not be installed" % pid)
        return EXIT_INCONCLUSIVE
    env.setup_paths()
    if rp:
        return replay(pid, rp)
    return run_check(pid, tier, seed)


if __name__ == "__main__":
    sys.exit(main(sys.argv[1:]))
