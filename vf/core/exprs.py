"""Small expression trees over Klong's numeric core, rendered to fully parenthesised source.

node := ["var", name] | ["lit", canonical value] | ["dy", op, l, r] | ["mo", op, e]
      | ["red", op, e] | ["scan", op, e] | ["each", fntext, e] | ["idx", e, i-node]
"""
from .render import render


def text(t, subst=None):
    k = t[0]
    if k == "var":
        return (subst or {}).get(t[1], t[1])
    if k == "lit":
        return render(t[1])
    if k == "dy":
        return "(%s)%s(%s)" % (text(t[2], subst), t[1], text(t[3], subst))
    if k == "mo":
        return "%s(%s)" % (t[1], text(t[2], subst))
    if k == "red":
        return "%s/(%s)" % (t[1], text(t[2], subst))
    if k == "scan":
        return "%s\\(%s)" % (t[1], text(t[2], subst))
    if k == "each":
        return "%s'(%s)" % (t[1], text(t[2], subst))
    if k == "idx":
        return "(%s)@(%s)" % (text(t[1], subst), text(t[2], subst))
    raise ValueError(k)


def children(t):
    k = t[0]
    if k in ("var", "lit"):
        return []
    if k == "dy":
        return [t[2], t[3]]
    if k in ("mo", "red", "scan", "each"):
        return [t[2]]
    if k == "idx":
        return [t[1], t[2]]
    raise ValueError(k)


def with_children(t, kids):
    k = t[0]
    if k == "dy":
        return [k, t[1], kids[0], kids[1]]
    if k in ("mo", "red", "scan", "each"):
        return [k, t[1], kids[0]]
    if k == "idx":
        return [k, kids[0], kids[1]]
    return t


def name(t):
    k = t[0]
    if k in ("dy", "mo", "red", "scan"):
        return k + t[1]
    if k == "each":
        return "each" + t[1]
    return k


def vars_of(t, acc=None):
    acc = acc if acc is not None else []
    if t[0] == "var":
        if t[1] not in acc:
            acc.append(t[1])
    for c in children(t):
        vars_of(c, acc)
    return acc


def postorder(t):
    out = []
    for c in children(t):
        out += postorder(c)
    out.append(t)
    return out


def size(t):
    return 1 + sum(size(c) for c in children(t))
