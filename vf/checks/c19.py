"""C19 - a table holds exactly the rows inserted into it, in the documented order.

Model-based history check: Klong-level results of .table / .insert / t?col / #t / .schema / .index /
.rindex / add column / db(sql) are compared step by step with a list-of-rows model.
"""
import random

from vf.core import kl
from vf.core.canon import canon, same, brief, I, R, S, L
from vf.core.render import render

PROPERTY = "C19"
LEVEL = "exploration"
RULE = ("case = history of 4-12 table operations (create from columns, insert one row, insert a batch, read a column, count, index on one or two columns, "
        "re-insert an existing key, drop the index, add a column, select * / count(*) through .db, .schema) over integer, real and string columns with "
        "unique key values; every observation is compared with a list-of-rows model (unindexed: insertion order; indexed: last insert per key wins, ordered "
        "by key). Distinct = distinct history; non-trivial = at least one observation compared after an insert.")
ASSUMPTIONS = ["index columns hold unique values before an index is created, as the statement requires", "values are compared with Klong match (an integer column widened to real still matches)",
               "a one-row result of db(sql) may come back squeezed to a vector (documented use of squeeze)"]
MIN_COUNTS = {"quick": {"nontrivial": 350, "observations_compared": 1800, "inserts": 1500, "index_operations": 250, "sql_queries": 400},
              "thorough": {"nontrivial": 7000, "observations_compared": 40000, "inserts": 25000, "index_operations": 5000, "sql_queries": 6000}}
CASE_TIMEOUT = 300

COLSETS = [
    [("a", "int"), ("b", "int")],
    [("a", "int"), ("b", "real"), ("c", "int")],
    [("k", "str"), ("v", "int")],
    [("a", "int"), ("s", "str"), ("x", "real")],
]


def _val(rng, typ, i):
    if typ == "int":
        return I(rng.randint(-5, 40))
    if typ == "real":
        return R(rng.choice([0.5, 1.5, 2.25, -3.5, 10.0]) + rng.randint(0, 3))
    return S(rng.choice(["aa", "b", "cc", "dd", "e", "ff", "g"]) + str(i % 4))


def _gen(rng):
    cols = rng.choice(COLSETS)
    nrow0 = rng.randint(0, 3)
    used_keys = set()
    keycol = 0

    def fresh_row(i, existing_key=None):
        row = []
        for ci, (name, typ) in enumerate(cols):
            if ci == keycol:
                if existing_key is not None:
                    row.append(existing_key)
                    continue
                for _ in range(50):
                    v = _val(rng, typ, i)
                    if repr(v) not in used_keys:
                        break
                used_keys.add(repr(v))
                row.append(v)
            else:
                row.append(_val(rng, typ, i))
        return row
    ops = [["create", [list(c) for c in cols], [fresh_row(i) for i in range(nrow0)]]]
    n = rng.randint(4, 12)
    rows = list(ops[0][2])
    indexed = False
    index_cols = None
    i = 10
    extra = 0
    base_fresh = fresh_row

    def fresh_row(i, existing_key=None):
        # rows inserted after a column was added carry a value for it
        return base_fresh(i, existing_key) + [I(500 + i) for _ in range(extra)]
    while len(ops) < n:
        r = rng.random()
        i += 1
        if r < 0.28:
            if rows and rng.random() < 0.35:
                old = rng.choice(rows)
                row = fresh_row(i, existing_key=old[keycol])      # re-insert an existing key
                if not indexed:
                    continue              # on an unindexed table that would break key uniqueness for a later index
                if index_cols == [0, 1]:
                    row[1] = old[1]       # the key of a two-column index: otherwise column 0 alone would stop being unique for a later index
            else:
                row = fresh_row(i)
            ops.append(["insert", row])
            rows.append(row)
        elif r < 0.34 and indexed:
            # several rows for the same few keys in one batch, keys out of order: the last one of each key must win
            protos = [fresh_row(i * 10 + j) for j in range(rng.randint(2, 3))]
            if rows and rng.random() < 0.5:
                protos.append(list(rng.choice(rows)))
            batch = []
            for j in range(rng.randint(4, 14)):
                p = rng.choice(protos)
                row = fresh_row(i * 10 + j, existing_key=p[keycol])
                if index_cols == [0, 1]:
                    row[1] = p[1]
                batch.append(row)
            if rng.random() < 0.5:
                ops.append(["insertb", batch])
            else:
                ops += [["insert", row] for row in batch]      # the same rows one by one with nothing read in between
            rows += batch
        elif r < 0.40:
            batch = [fresh_row(i * 10 + j) for j in range(rng.randint(2, 4))]
            if indexed and rows and rng.random() < 0.4:
                old = rng.choice(rows)
                batch[0] = fresh_row(i, existing_key=old[keycol])
                if index_cols == [0, 1]:
                    batch[0][1] = old[1]
            ops.append(["insertb", batch])
            rows += batch
        elif r < 0.55:
            ops.append(["col", rng.randrange(len(cols) + extra)])
        elif r < 0.65:
            ops.append(["count"])
        elif r < 0.75:
            if not indexed:
                two = len(cols) > 2 and rng.random() < 0.3
                index_cols = [0, 1] if two else [0]
                ops.append(["index", index_cols])
                indexed = True
            else:
                ops.append(["rindex"])
                indexed = False
        elif r < 0.83:
            ops.append(["sql", rng.choice(["select", "count"])])
        elif r < 0.88:
            ops.append(["schema"])
        elif r < 0.93 and extra == 0:
            ops.append(["addcol", "z%d" % extra])
            extra += 1
        else:
            ops.append(["sql", "select"])
    return ops


def cases(tier, seed):
    rng = random.Random(19000 + seed)
    n = 600 if tier == "quick" else 12000
    return [{"ops": _gen(rng)} for _ in range(n)]


def init_shard(tier, seed):
    k = kl.new()
    r = kl.ev(k, '.py("klongpy.db")')
    if r[0] != "ok":
        raise RuntimeError("cannot import klongpy.db: %r" % (r,))
    return {}


class Model:
    def __init__(self, cols, rows):
        self.cols = [c[0] for c in cols]
        self.rows = [list(r) for r in rows]
        self.idx = None

    def key(self, row):
        return tuple(repr(row[i]) for i in self.idx)

    def _sortkey(self, row):
        return tuple((row[i][1] if row[i][0] in ("I", "R") else 0, row[i][1] if row[i][0] == "S" else "") for i in self.idx)

    def insert(self, row):
        if self.idx is None:
            self.rows.append(list(row))
            return
        k = self.key(row)
        for j, r in enumerate(self.rows):
            if self.key(r) == k:
                self.rows[j] = list(row)
                break
        else:
            self.rows.append(list(row))
        self.rows.sort(key=self._sortkey)

    def index(self, idx):
        self.idx = idx
        self.rows.sort(key=self._sortkey)

    def rindex(self):
        self.idx = None

    def col(self, j):
        return L([r[j] for r in self.rows])


def _rowlit(row):
    return "[" + " ".join(render(v, True) for v in row) + "]"


def run_case(ctx, case):
    ops = case["ops"]
    res = {"nontrivial": False, "counters": {}, "violations": [], "key": repr(ops)}
    cnt = res["counters"]
    k = kl.new()
    kl.ev(k, '.py("klongpy.db")')
    hist = []
    m = None
    inserted = False
    pending_since_read = 0

    def bad(i, form, diff, what):
        res["violations"].append({"sig": "%s|%s|%s|%s" % (form, "indexed" if (m and m.idx is not None) else "unindexed", "buffered" if pending_since_read else "committed", diff),
                                  "what": "op #%d %s: %s" % (i, hist[-1], what), "detail": {"history": list(hist)}})

    def observe(i, form, r, want, mode="match"):
        cnt["observations_compared"] = cnt.get("observations_compared", 0) + 1
        if inserted:
            res["nontrivial"] = True
        if r[0] != "ok":
            bad(i, form, "raises:" + r[1], "raised %s %s, model says %s" % (r[1], r[2], brief(want)))
            return False
        got = canon(r[1])
        d = same(got, want, mode)
        if d and form == "sql-select" and want[0] == "L" and len(want[1]) == 1:
            d = same(got, want[1][0], mode)          # one row: squeezed
        if d and form in ("sql-select", "col") and want == ["L", []]:
            d = None if (got[0] == "L" and all(x == ["L", []] or x[0] != "L" for x in got[1]) and not _flat(got)) else d
        if d:
            bad(i, form, d, "returned %s, model says %s" % (brief(got, 200), brief(want, 200)))
            return False
        return True

    for i, op in enumerate(ops):
        t = op[0]
        if t == "create":
            cols, rows = op[1], op[2]
            m = Model(cols, rows)
            stmts = ["e::[]"]
            for j, (name, typ) in enumerate(cols):
                colv = L([r[j] for r in rows])
                stmts.append('e::e,,"%s",,%s' % (name, render(colv)))
            stmts.append("T::.table(e)")
            stmts.append('db::.db(:{},"T",,T)')
            hist.append("; ".join(stmts))
            for s_ in stmts:
                r = kl.ev(k, s_)
                if r[0] != "ok":
                    res["counters"]["create_failed"] = 1
                    res["show"] = {"history": hist}
                    return res
        elif t == "insert":
            hist.append(".insert(T;%s)" % _rowlit(op[1]))
            r = kl.ev(k, hist[-1])
            m.insert(op[1])
            inserted = True
            pending_since_read += 1
            cnt["inserts"] = cnt.get("inserts", 0) + 1
            if r[0] != "ok":
                bad(i, "insert", "raises:" + r[1], "raised %s %s" % (r[1], r[2]))
                break
        elif t == "insertb":
            hist.append(".insert(T;[%s])" % " ".join(_rowlit(r_) for r_ in op[1]))
            r = kl.ev(k, hist[-1])
            for row in op[1]:
                m.insert(row)
            inserted = True
            pending_since_read += len(op[1])
            cnt["inserts"] = cnt.get("inserts", 0) + len(op[1])
            if r[0] != "ok":
                bad(i, "insert-batch", "raises:" + r[1], "raised %s %s" % (r[1], r[2]))
                break
        elif t == "col":
            j = op[1]
            if j >= len(m.cols):
                continue
            hist.append('T?"%s"' % m.cols[j])
            if not observe(i, "col", kl.ev(k, hist[-1]), m.col(j)):
                break
        elif t == "count":
            hist.append("#T")
            ok = observe(i, "count", kl.ev(k, "#T"), I(len(m.rows)))
            pending_since_read = 0
            if not ok:
                break
        elif t == "index":
            names = [m.cols[j] for j in op[1]]
            hist.append(".index(T;[%s])" % " ".join('"%s"' % n for n in names))
            r = kl.ev(k, hist[-1])
            m.index(op[1])
            pending_since_read = 0
            cnt["index_operations"] = cnt.get("index_operations", 0) + 1
            if r[0] != "ok":
                bad(i, "index", "raises:" + r[1], "raised %s %s" % (r[1], r[2]))
                break
        elif t == "rindex":
            hist.append(".rindex(T)")
            r = kl.ev(k, hist[-1])
            m.rindex()
            pending_since_read = 0
            cnt["index_operations"] = cnt.get("index_operations", 0) + 1
            if r[0] != "ok":
                bad(i, "rindex", "raises:" + r[1], "raised %s %s" % (r[1], r[2]))
                break
        elif t == "sql":
            cnt["sql_queries"] = cnt.get("sql_queries", 0) + 1
            if op[1] == "count":
                hist.append('db("select count(*) from T")')
                ok = observe(i, "sql-count", kl.ev(k, hist[-1]), I(len(m.rows)))
            else:
                hist.append('db("select %s from T")' % ", ".join(m.cols))
                want = L([L(list(r_)) for r_ in m.rows])
                ok = observe(i, "sql-select", kl.ev(k, hist[-1]), want)
            pending_since_read = 0
            if not ok:
                break
        elif t == "schema":
            hist.append(".schema(T)")
            if not observe(i, "schema", kl.ev(k, hist[-1]), L([S(c) for c in m.cols]), "exact"):
                break
        elif t == "addcol":
            # a column is added to a committed table: force the commit first (and observe the count)
            hist.append("#T")
            if not observe(i, "count", kl.ev(k, "#T"), I(len(m.rows))):
                break
            pending_since_read = 0
            vals = [I(100 + j) for j in range(len(m.rows))]
            hist.append('T,"%s",,%s' % (op[1], render(L(vals))))
            r = kl.ev(k, hist[-1])
            if r[0] != "ok":
                # refusing a column (e.g. while inserts are buffered) must leave the table unchanged: not judged further
                cnt["addcol_refused"] = cnt.get("addcol_refused", 0) + 1
                if pending_since_read == 0:
                    bad(i, "addcol", "raises:" + r[1], "raised %s %s on a committed table" % (r[1], r[2]))
                    break
                continue
            m.cols.append(op[1])
            for row, v in zip(m.rows, vals):
                row.append(v)
    res["show"] = {"history": hist}
    return res


def _flat(c):
    return any(x[0] != "L" for x in c[1]) if c[0] == "L" else True
