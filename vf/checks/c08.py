"""C08 - numeric programs mean the same under the NumPy and PyTorch backends.

Twin differential monitor: the same source text runs in KlongInterpreter(backend='numpy') and
KlongInterpreter(backend='torch', device='cpu'); canonical results (shape, integer/real kind,
elements to float32 rounding) and the writer's text (reals rounded to 6 significant digits)
are compared whenever both return.  Programs built only from compiler-handled operations must
be accepted by both.
"""
import random
import re

from vf.core import kl, exprs as E
from vf.core.canon import canon, same, shape_class, brief, I, R, L

PROPERTY = "C08"
LEVEL = "exploration"
RULE = ("case = (program tree over the numeric core grammar, bindings); evaluated under numpy and torch(cpu) in fresh interpreters; "
        "non-trivial = both backends returned (or the program is compiler-only, where acceptance by both is required); "
        "distinct = distinct (program text, binding classes). Divergences are localised to one operation by single-node probes.")
ASSUMPTIONS = ["torch cpu float32 default; comparison tolerance 2e-4 relative", "numeric core only: no strings, no nested/ragged operands (object arrays are not tensors)",
               "integer results beyond 2**24 in float32 arithmetic are outside 'single-precision rounding' and excluded by keeping operands small"]
MIN_COUNTS = {"quick": {"nontrivial": 1500, "both_returned": 1500}, "thorough": {"nontrivial": 20000, "both_returned": 20000}}
CASE_TIMEOUT = 120

DY_ATOMIC = ["+", "-", "*", "%", "<", ">", "=", "&", "|"]
MONADS = ["-", "_", "|"]
RS = ["+", "*", "|", "&"]
EACH_FNS = ["{x*2}", "{x+1}", "{-x}"]
COMPILABLE_DY = {"+", "-", "*", "%", "^", "<", ">", "="}


def _binds():
    return {
        "int": [I(4), I(0), I(-3), I(2)],
        "real": [R(2.5), R(-0.5), R(4.0)],
        "vecI": [L([I(1), I(2), I(3)]), L([I(4)]), L([I(0), I(-2), I(5)])],
        "vecR": [L([R(1.5), R(2.0), R(-0.25)]), L([R(4.0), R(9.0), R(0.5)])],
        "mat": [L([L([I(1), I(2)]), L([I(3), I(4)])]), L([L([R(1.5), R(2.0)]), L([R(0.5), R(-1.0)])]),
                L([L([I(1), I(2), I(3)]), L([I(4), I(5), I(6)])])],
    }


def _gen(rng, d, vars_):
    if d == 0:
        if rng.random() < 0.75:
            return ["var", rng.choice(vars_)]
        return ["lit", rng.choice([I(0), I(1), I(2), I(3), R(0.5), R(2.0)])]
    r = rng.random()
    if r < 0.36:
        return ["dy", rng.choice(DY_ATOMIC), _gen(rng, d - 1, vars_), _gen(rng, rng.randint(0, d - 1), vars_)]
    if r < 0.40:
        # powers with a small literal exponent only: keeps results inside float32's exact range
        return ["dy", "^", _gen(rng, d - 1, vars_), ["lit", rng.choice([I(2), I(3), R(0.5), I(0)])]]
    if r < 0.52:
        return ["mo", rng.choice(MONADS), _gen(rng, d - 1, vars_)]
    if r < 0.64:
        return ["red", rng.choice(RS), _gen(rng, d - 1, vars_)]
    if r < 0.72:
        return ["scan", rng.choice(RS), _gen(rng, d - 1, vars_)]
    if r < 0.80:
        return ["each", rng.choice(EACH_FNS), _gen(rng, d - 1, vars_)]
    if r < 0.86:
        return ["idx", _gen(rng, d - 1, vars_), ["lit", rng.choice([I(0), I(1), L([I(0), I(1)]), L([I(1), I(0), I(0)])])]]
    if r < 0.93:
        return ["dy", rng.choice(["#", "_"]), ["lit", rng.choice([I(1), I(2), I(-1), I(0), I(4)])], _gen(rng, d - 1, vars_)]
    return ["dy", ",", _gen(rng, d - 1, vars_), _gen(rng, rng.randint(0, d - 1), vars_)]


def _depth1(vars_):
    out = []
    leaves = [["var", v] for v in vars_]
    for op in DY_ATOMIC + [","]:
        out.append(["dy", op, leaves[0], leaves[1]])
        out.append(["dy", op, leaves[0], ["lit", I(2)]])
        out.append(["dy", op, ["lit", R(0.5)], leaves[0]])
    for e in (I(2), I(3), R(0.5), I(0)):
        out.append(["dy", "^", leaves[0], ["lit", e]])
        out.append(["dy", "^", ["mo", "-", leaves[0]], ["lit", e]])
    for op in MONADS:
        out.append(["mo", op, leaves[0]])
    for op in RS:
        out.append(["red", op, leaves[0]])
        out.append(["scan", op, leaves[0]])
    for f in EACH_FNS:
        out.append(["each", f, leaves[0]])
    for i in (I(0), I(1), L([I(0), I(1)])):
        out.append(["idx", leaves[0], ["lit", i]])
    for n in (I(1), I(2), I(-1), I(0), I(4), I(-5)):
        out.append(["dy", "#", ["lit", n], leaves[0]])
        out.append(["dy", "_", ["lit", n], leaves[0]])
    return out


def _reuse():
    """The same variable used twice in one program, once under an adverb or monad: a backend that works on its operand in place
    shows in the second use."""
    a = ["var", "a"]
    out = []
    for op in RS + ["-"]:
        for node in (["scan", op, a], ["red", op, a]):
            out.append(["dy", "+", a, node])
            out.append(["dy", "-", node, a])
            out.append(["dy", ",", node, a])
            out.append(["dy", ",", a, ["dy", ",", node, a]])
    for m in MONADS:
        out.append(["dy", ",", ["mo", m, a], a])
        out.append(["dy", "+", a, ["mo", m, a]])
    for fn in EACH_FNS:
        out.append(["dy", ",", ["each", fn, a], a])
    for n in (I(1), I(-1), I(2)):
        out.append(["dy", ",", ["dy", "#", ["lit", n], a], a])
        out.append(["dy", ",", ["dy", "_", ["lit", n], a], a])
    return out


def cases(tier, seed):
    rng = random.Random(8000 + seed)
    B = _binds()
    classes = list(B)
    out = []
    for t in _reuse():
        for c in classes:
            for v in B[c]:
                out.append({"tree": t, "binds": {"a": v}})
    for t in _depth1(["a", "b"]):
        vs = E.vars_of(t)
        import itertools
        for combo in itertools.product(classes, repeat=len(vs)):
            for rep in range(1 if tier == "quick" else 3):
                out.append({"tree": t, "binds": {v: rng.choice(B[c]) for v, c in zip(vs, combo)}})
    n = 2500 if tier == "quick" else 60000
    for i in range(n):
        d = 2 if i % 3 else 3
        t = _gen(rng, d, ["a", "b", "c"][: 2 + (d == 3)])
        vs = E.vars_of(t)
        if not vs:
            continue
        out.append({"tree": t, "binds": {v: rng.choice(B[rng.choice(classes)]) for v in vs}})
    return out


def _compiler_only(t):
    k = t[0]
    if k in ("var",):
        return True
    if k == "lit":
        return t[1][0] in ("I", "R")
    if k == "dy":
        return t[1] in COMPILABLE_DY and all(_compiler_only(c) for c in E.children(t))
    if k == "mo":
        return t[1] == "-" and _compiler_only(t[2])
    if k in ("red", "scan"):
        return _compiler_only(t[2])
    return False


_FLOAT = re.compile(r"-?\d+\.\d*(?:e[+-]?\d+)?|-?\d+e[+-]?\d+|-?inf|nan|-?\d{8,}|-?0(?![\d.])")


def _norm_text(s):
    """Text with every number replaced by a placeholder, plus the list of numbers."""
    nums = []

    def f(m):
        try:
            nums.append(float(m.group(0)))
        except ValueError:
            nums.append(float("nan"))
        return "#"
    return _FLOAT.sub(f, s), nums


def _same_text(a, b):
    """The writer's texts read the same: same layout, numbers equal up to single-precision rounding
    (the same tolerance as the value comparison; the sign of zero is not part of the value)."""
    from vf.core.canon import _num_close
    (ta, na), (tb, nb) = _norm_text(a), _norm_text(b)
    if ta != tb or len(na) != len(nb):
        return False
    return all(_num_close(x, y, 2e-4, 2e-5) for x, y in zip(na, nb))


def init_shard(tier, seed):
    from vf.checks.c05 import Switch
    sw = Switch()
    sw.install()
    return {"switch": sw}


def _eval(backend, tree, binds, off=False):
    from klongpy.writer import kg_write
    k = kl.new(backend)
    k._vf_c = {"off": off}
    for name, c in binds.items():
        k[name] = kl.topy(c, k)
    r = kl.ev(k, E.text(tree))
    if r[0] != "ok":
        return ("err", r[1]), None
    try:
        txt = kg_write(r[1], k._backend)
    except Exception as e:
        txt = "<writer raised %s>" % type(e).__name__
    return ("ok", canon(r[1])), txt


def _diff(tree, binds, off=False):
    (sn, tn), (st, tt) = _eval(None, tree, binds, off), _eval("torch", tree, binds, off)
    if sn[0] == "err" or st[0] == "err":
        if sn[0] == st[0]:
            return None, sn, st, tn, tt
        return "raises-on-" + ("numpy" if sn[0] == "err" else "torch"), sn, st, tn, tt
    d = same(sn[1], st[1], "f32")
    if d:
        return d, sn, st, tn, tt
    if not _same_text(tn, tt):
        return "display", sn, st, tn, tt
    return None, sn, st, tn, tt


def _coarse(c):
    sc = shape_class(c)
    if sc in ("int0", "int+", "int-"):
        return "int"
    if sc in ("ragged", "nested"):
        return "nested"
    return sc


def _blame(tree, binds):
    """First node (post-order) whose single-operation probe differs between the backends:
    first with the expression compiler stubbed off on both (a difference of the backends'
    interpreted paths), then with it on (a difference that involves compiled code), then with
    it on and scalar operands supplied as compiled intermediates (+/[v])."""
    return _blame_mode(tree, binds, True) or _blame_mode(tree, binds, False) or _blame_mode(tree, binds, False, True)


def _blame_mode(tree, binds, off, np_scalars=False):
    for node in E.postorder(tree):
        if node[0] in ("var", "lit"):
            continue
        kids = E.children(node)
        vals = []
        for x in kids:
            if x[0] == "lit":
                vals.append(x[1])
                continue
            s, _ = _eval(None, x, binds, off)
            vals.append(s[1] if s[0] == "ok" else None)
        if any(v is None or v[0] not in ("I", "R", "L", "U") for v in vals):
            continue
        names = ["p", "q"]
        all_lit = all(x[0] == "lit" for x in kids)
        b2, k2 = {}, []
        for i, (x, v) in enumerate(zip(kids, vals)):
            if x[0] == "lit" and not (all_lit and i == len(kids) - 1):
                k2.append(x)
            elif np_scalars and v[0] in ("I", "R"):
                k2.append(["red", "+", ["var", names[i]]])
                b2[names[i]] = ["L", [v]]
            else:
                k2.append(["var", names[i]])
                b2[names[i]] = v
        if not b2:
            continue
        probe = E.with_children(node, k2)
        d = _diff(probe, b2, off)[0]
        if d and (not d.startswith("raises-on") or (not off and _compiler_only(node))):
            lit = ""
            if node[0] == "dy" and node[1] in "#_" and kids[0][0] == "lit":
                n = kids[0][1][1]
                lit = ":neg" if n < 0 else (":zero" if n == 0 else ":pos")
            return "%s%s|%s|%s|%s" % (E.name(node), lit, ",".join(_coarse(v) for v in vals), d,
                                      "interpreted" if off else ("compiled(np-scalars)" if np_scalars else "compiled"))
    return None


def _nan_inside(tree, binds):
    import math

    def has_nan(c):
        if c[0] == "R":
            return math.isnan(c[1])
        if c[0] == "L":
            return any(has_nan(x) for x in c[1])
        return c[0] == "X"          # complex number

    def has_div0(c):
        if c[0] == "R":
            return math.isinf(c[1])
        if c[0] == "L":
            return any(has_div0(x) for x in c[1])
        return c[0] == "U"
    div0 = False
    for node in E.postorder(tree):
        if node[0] in ("var", "lit"):
            continue
        for backend in (None, "torch"):
            s, _ = _eval(backend, node, binds, True)
            if s[0] == "ok" and has_nan(s[1]):
                return True
            if s[0] == "ok" and has_div0(s[1]):
                div0 = True
    return "div0" if div0 else False


def run_case(ctx, case):
    tree, binds = case["tree"], case["binds"]
    res = {"nontrivial": False, "counters": {}, "violations": []}
    prog = E.text(tree)
    classes = ",".join("%s:%s" % (v, shape_class(c)) for v, c in sorted(binds.items()))
    res["key"] = prog + "|" + classes
    d, sn, st, tn, tt = _diff(tree, binds)
    show = {"program": prog, "binds": {v: brief(c) for v, c in binds.items()},
            "numpy": brief(sn[1]) if sn[0] == "ok" else "error:" + sn[1], "torch": brief(st[1]) if st[0] == "ok" else "error:" + st[1],
            "numpy_text": tn, "torch_text": tt}
    res["show"] = show
    conly = _compiler_only(tree)
    if sn[0] == "ok" and st[0] == "ok":
        res["nontrivial"] = True
        res["counters"]["both_returned"] = 1
    elif sn[0] != st[0]:
        res["counters"]["raised_on_one_backend"] = 1
        if conly:
            res["nontrivial"] = True
            res["counters"]["compiler_only_programs_rejected_by_one"] = 1
    else:
        res["counters"]["raised_on_both"] = 1
    if conly:
        res["counters"]["compiler_only_programs"] = 1
    if d is None:
        return res
    if d.startswith("raises-on") and not conly:
        return res            # "whenever both return": outside the statement
    inside = _nan_inside(tree, binds)
    if inside == "div0":
        # a division by zero happened inside the program: what the rest of it makes of inf / :undefined is the recorded %-by-zero mechanism
        res["counters"]["divergences_examined"] = 1
        res["violations"].append({"sig": "division-by-zero-inside|%s" % d, "what": "numpy %s vs torch %s for %s with %s" % (show["numpy"], show["torch"], prog, show["binds"]), "detail": show})
        return res
    if inside:
        # a not-a-number arose inside the program (fractional power of a negative number, 0%0 ...): what floor, comparison or
        # integer conversion make of it is not part of "numeric programs mean the same"
        res["counters"]["divergences_with_nan_intermediate"] = 1
        return res
    di = _diff(tree, binds, True)[0]          # the two interpreted paths, compiler stubbed off on both
    res["counters"]["divergences_examined"] = 1
    if di and not di.startswith("raises-on"):
        sig = _blame_mode(tree, binds, True) or "context-only|interpreted|%s|%s" % (E.name(tree), di)
    elif d.startswith("raises-on"):
        # compiler-only program rejected by one backend: find the smallest rejected sub-program
        sub = None
        for node in E.postorder(tree):
            if node[0] in ("var", "lit"):
                continue
            dd = _diff(node, binds)[0]
            if dd and dd.startswith("raises-on"):
                sub = node
                break
        ops = []
        if sub is not None:
            for x in E.children(sub):
                s, _ = _eval(None, x, binds)
                ops.append(_coarse(s[1]) if s[0] == "ok" else "err")
        exc = (sn if sn[0] == "err" else st)[1]
        scan_mat = False
        for node in E.postorder(tree):
            if node[0] == "scan":
                s, _ = _eval(None, node[2], binds, True)
                if s[0] == "ok" and shape_class(s[1]) in ("mat", "rank3"):
                    scan_mat = True
        if scan_mat:
            sig = "compiler-only|%s:%s|contains-scan-of-matrix" % (d, exc)
        else:
            sig = "compiler-only|%s:%s|%s|%s" % (d, exc, E.name(sub) if sub else "?", ",".join(ops))
    else:
        # the interpreted paths agree: the divergence exists only because compiled code ran on (at least) one side
        sig = _blame_mode(tree, binds, False) or _blame_mode(tree, binds, False, True) or "compiled-only-divergence|%s" % d
    res["violations"].append({"sig": sig, "what": "numpy %s vs torch %s for %s with %s" % (show["numpy"], show["torch"], prog, show["binds"]), "detail": show})
    return res
