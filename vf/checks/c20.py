"""C20 - web routes and websocket messages reach their Klong handler exactly once, intact.

(A) the real .web(port;get;post) on an ephemeral loopback port, driven one request at a time;
    Klong handlers call a harness callable that logs (route, token, parameters).  Oracle: exactly-once
    per request, logged parameter dictionary == sent one, body == text of the handler's result,
    400 for a failing handler (and only for that request), unknown paths reach no handler, handler
    redefinition takes effect, the port stops answering after .webc.
(B) the real .ws(uri) client against an in-process websockets server the harness owns: every pushed
    message reaches .ws.m exactly once, in order, decoded; a value sent through the connection arrives
    as its JSON encoding.
"""
import json
import random
import socket
import threading
import time
import urllib.error
import urllib.parse
import urllib.request

from vf.core import kl
from vf.core.canon import canon, same, brief

PROPERTY = "C20"
LEVEL = "exploration"
RULE = ("case = (A) one web server: a route table of <= 3 GET and <= 3 POST routes and a sequence of requests (good, unknown path, wrong method, failing handler, "
        "handler redefinition in between) with parameter dictionaries (empty, several keys, non-ASCII, characters needing URL encoding), then .webc and a probe of the "
        "port; or (B) one websocket connection: a sequence of JSON messages of all kinds pushed by the server and values sent by the client. Each request / message "
        "carries a unique token. Distinct = distinct case; non-trivial = at least one request or message was judged.")
ASSUMPTIONS = ["requests are issued one at a time (the property's quantifier has no schedules)", "handlers mention both x and y where two parameters are passed (arity is inferred from the parameters a function mentions)",
               "the text of a handler's result is Python str() of the returned value, as the implementation documents"]
MIN_COUNTS = {"quick": {"nontrivial": 50, "http_requests": 450, "ws_messages_delivered": 250, "servers_closed": 25},
              "thorough": {"nontrivial": 800, "http_requests": 6000, "ws_messages_delivered": 4000, "servers_closed": 400}}
CASE_TIMEOUT = 300
MIN_SHARD = 3

PARAMS = [
    {},
    {"a": "1"},
    {"a": "1", "b": "two", "c": ""},
    {"q": "hello world", "sym": "a&b=c", "pct": "100%", "plus": "1+1", "slash": "x/y?z#frag"},
    {"uni": "héllo wörld ✓", "jp": "日本語"},
    {"quote": 'say "hi"', "nl": "line1\nline2", "semi": "a;b"},
]
WS_MESSAGES = [1, 0, -7, 2.5, 0.0, "text", "", "héllo ✓", True, False, None, [1, 2, 3], [], [1.5, 2.5], ["a", "b"], [[1, 2], [3, 4]], {"k": 1}, {}, {"a": [1, 2], "b": "s"},
               [1, 2, [3]], [[1], [2, 3]], {"n": None}, "0", [0], [""], 1e10, -0.5]
WS_SEND = [("1", 1), ("2.5", 2.5), ('"text"', "text"), ("[1 2 3]", [1, 2, 3]), ('["a" "b"]', ["a", "b"]), ("[[1 2] [3 4]]", [[1, 2], [3, 4]]), ('""', ""), ("[]", []),
           (':{["k" 1]}', {"k": 1}), ("0", 0)]


def cases(tier, seed):
    rng = random.Random(20000 + seed)
    out = []
    nw = 40 if tier == "quick" else 500
    for i in range(nw):
        ng, np_ = rng.randint(0, 3), rng.randint(0, 3)
        if ng + np_ == 0:
            ng = 1
        reqs = []
        for _ in range(rng.randint(8, 25)):
            r = rng.random()
            if r < 0.55:
                reqs.append(["good", rng.randrange(10), rng.randrange(len(PARAMS))])
            elif r < 0.61:
                reqs.append(["unknown", rng.choice(["/nope", "/g9", "/", "/g0/extra", "/P0"]), rng.randrange(len(PARAMS))])
            elif r < 0.65:
                # a near miss of a registered route: still not registered
                reqs.append(["unknown-near", rng.randrange(10), rng.randrange(len(PARAMS)), rng.choice(["trailing-slash", "leading-double-slash", "extra-char", "upper-case", "dot-segment"])])
            elif r < 0.75:
                reqs.append(["wrong-method", rng.randrange(10), rng.randrange(len(PARAMS))])
            elif r < 0.88:
                reqs.append(["failing", rng.randrange(10), rng.randrange(len(PARAMS))])
            else:
                reqs.append(["redefine", rng.randrange(10)])
        out.append({"t": "web", "gets": ng, "posts": np_, "requests": reqs, "fail_route": rng.randrange(10)})
    nws = 35 if tier == "quick" else 400
    for i in range(nws):
        msgs = [rng.randrange(len(WS_MESSAGES)) for _ in range(rng.randint(5, 20))]
        sends = [rng.randrange(len(WS_SEND)) for _ in range(rng.randint(1, 5))]
        out.append({"t": "ws", "msgs": msgs, "sends": sends})
    return out


def init_shard(tier, seed):
    return {}


def _free_port():
    s = socket.socket()
    s.bind(("127.0.0.1", 0))
    p = s.getsockname()[1]
    s.close()
    return p


def _mkrepl():
    import io
    import sys
    from klongpy.repl import create_repl
    o, e = sys.stdout, sys.stderr
    sys.stdout = sys.stderr = io.StringIO()
    try:
        return create_repl()
    finally:
        sys.stdout, sys.stderr = o, e


def _http(method, url, params):
    data = None
    if method == "GET":
        if params:
            url = url + "?" + urllib.parse.urlencode(params)
    else:
        data = urllib.parse.urlencode(params).encode()
    req = urllib.request.Request(url, data=data, method=method)
    try:
        with urllib.request.urlopen(req, timeout=20) as r:
            return r.status, r.read().decode("utf8", "replace")
    except urllib.error.HTTPError as e:
        return e.code, e.read().decode("utf8", "replace")
    except Exception as e:
        return "error:" + type(e).__name__, ""


def _run_web(ctx, case, res):
    from klongpy.repl import cleanup_repl
    cnt = res["counters"]
    k, loops = _mkrepl()
    log = []
    try:
        r = kl.ev(k, '.py("klongpy.web")')
        if r[0] != "ok":
            res["harness_error"] = "cannot import klongpy.web: %r" % (r,)
            return
        version = {}

        def rec(x, y):
            # x = route tag, y = parameter dictionary
            log.append((str(x), dict(y) if isinstance(y, dict) else y))
            tag = str(x)
            return "resp:%s:v%d:%s" % (tag, version.get(tag, 0), (y.get("tok") if isinstance(y, dict) else None))
        k["rec"] = rec
        routes = []
        kl.ev(k, "get:::{}")
        kl.ev(k, "post:::{}")
        fail_tag = None
        allr = [("GET", "/g%d" % i, "g%d" % i) for i in range(case["gets"])] + [("POST", "/p%d" % i, "p%d" % i) for i in range(case["posts"])]
        fail_tag = allr[case["fail_route"] % len(allr)][2]
        for method, path, tag in allr:
            body = '{rec("%s";x)}' % tag
            kl.ev(k, "h%s::%s" % (tag, body))
            kl.ev(k, '%s,"%s",h%s' % ("get" if method == "GET" else "post", path, tag))
            routes.append((method, path, tag))
        port = _free_port()
        r = kl.ev(k, "wh::.web(%d;get;post)" % port)
        if r[0] != "ok":
            res["harness_error"] = "cannot start web server: %r" % (r,)
            return
        base = "http://127.0.0.1:%d" % port
        for _ in range(100):
            st, _b = _http("GET", base + "/__probe__", {})
            if st == 404:
                break
            time.sleep(0.05)
        hist = []
        tokn = 0
        failing_now = set()

        def bad(sig, what):
            res["violations"].append({"sig": sig, "what": what, "detail": {"routes": routes, "history": hist[-6:]}})

        for rq in case["requests"]:
            kind = rq[0]
            tokn += 1
            tok = "t%d" % tokn
            if kind == "redefine":
                method, path, tag = routes[rq[1] % len(routes)]
                version[tag] = version.get(tag, 0) + 1
                failing_now.discard(tag)
                kl.ev(k, 'h%s::{rec("%s";x)}' % (tag, tag))
                hist.append("redefine h%s" % tag)
                cnt["handler_redefinitions"] = cnt.get("handler_redefinitions", 0) + 1
                continue
            params = dict(PARAMS[rq[2]], tok=tok)
            before = len(log)
            cnt["http_requests"] = cnt.get("http_requests", 0) + 1
            if kind == "good":
                method, path, tag = routes[rq[1] % len(routes)]
                if tag in failing_now:
                    continue
                st, body = _http(method, base + path, params)
                hist.append("%s %s %s -> %s %r" % (method, path, tok, st, body[:40]))
                new = log[before:]
                if st != 200:
                    bad("good-request|%s|status:%s" % (method, st), "%s %s answered %s %r" % (method, path, st, body[:80]))
                    break
                if len(new) != 1:
                    bad("good-request|%s|handler-invocations:%d" % (method, len(new)), "%s %s invoked handlers %d times: %r" % (method, path, len(new), new))
                    break
                if new[0][0] != tag:
                    bad("good-request|%s|wrong-handler" % method, "%s %s reached handler %s" % (method, path, new[0][0]))
                    break
                if new[0][1] != params:
                    pclass = ["empty", "one", "several", "urlencoding", "non-ascii", "quotes-newlines"][rq[2]]
                    bad("good-request|%s|parameters|%s" % (method, pclass), "%s %s handler saw %r, sent %r" % (method, path, new[0][1], params))
                    break
                want = "resp:%s:v%d:%s" % (tag, version.get(tag, 0), tok)
                if body != want:
                    bad("good-request|%s|body" % method, "%s %s body %r, handler returned %r" % (method, path, body, want))
                    break
                res["nontrivial"] = True
            elif kind == "unknown":
                st, body = _http(rng_method(rq[1]), base + rq[1], params)
                hist.append("? %s -> %s" % (rq[1], st))
                if len(log) != before:
                    bad("unknown-path|handler-invoked", "request to unregistered %s invoked %r" % (rq[1], log[before:]))
                    break
                if st == 200:
                    bad("unknown-path|status:200", "request to unregistered %s answered 200 %r" % (rq[1], body[:60]))
                    break
            elif kind == "unknown-near":
                method, path, tag = routes[rq[1] % len(routes)]
                near = {"trailing-slash": path + "/", "leading-double-slash": "/" + path, "extra-char": path + "x", "upper-case": path.upper(), "dot-segment": "/x/.." + path}[rq[3]]
                if any(p == near for _, p, _ in routes):
                    continue
                st, body = _http(method, base + near, params)          # urllib follows redirects for GET
                hist.append("? %s %s -> %s" % (method, near, st))
                cnt["near_miss_requests"] = cnt.get("near_miss_requests", 0) + 1
                if len(log) != before:
                    bad("unknown-path|near-miss:%s|handler-invoked" % rq[3], "%s request to unregistered %s (near miss of %s) invoked %r" % (method, near, path, log[before:]))
                    break
                if st == 200 or (isinstance(st, int) and 300 <= st < 400):
                    bad("unknown-path|near-miss:%s|status:%s" % (rq[3], st), "%s request to unregistered %s (near miss of %s) answered %s %r" % (method, near, path, st, body[:60]))
                    break
            elif kind == "wrong-method":
                method, path, tag = routes[rq[1] % len(routes)]
                other = "POST" if method == "GET" else "GET"
                if any(m == other and p == path for m, p, _ in routes):
                    continue
                st, body = _http(other, base + path, params)
                hist.append("%s(wrong) %s -> %s" % (other, path, st))
                if len(log) != before or st == 200:
                    bad("wrong-method|handler-reached", "%s on %s-only route %s: status %s, handler calls %r" % (other, method, path, st, log[before:]))
                    break
            elif kind == "failing":
                method, path, tag = routes[rq[1] % len(routes)]
                # make this route's handler fail after it logged, then restore it
                kl.ev(k, 'h%s::{rec("%s";x);nosuchfunction(1)}' % (tag, tag))
                st, body = _http(method, base + path, params)
                hist.append("%s %s (failing) -> %s" % (method, path, st))
                kl.ev(k, 'h%s::{rec("%s";x)}' % (tag, tag))
                cnt["failing_handler_requests"] = cnt.get("failing_handler_requests", 0) + 1
                if st != 400:
                    bad("failing-handler|%s|status:%s" % (method, st), "failing handler on %s %s answered %s %r" % (method, path, st, body[:60]))
                    break
                if len(log) - before != 1:
                    bad("failing-handler|%s|handler-invocations:%d" % (method, len(log) - before), "failing handler invoked %d times" % (len(log) - before))
                    break
        # ---------------------------------------------------------------- .webc
        r = kl.ev(k, ".webc(wh)")
        cnt["servers_closed"] = 1
        if r[0] != "ok" or canon(r[1]) != ["I", 1]:
            bad("webc|result", ".webc(wh) returned %s" % (r[1] if r[0] == "err" else brief(canon(r[1]))))
        else:
            st, body = _http("GET", base + (routes[0][1] if routes[0][0] == "GET" else "/x"), {"tok": "after-close"})
            if not str(st).startswith("error"):
                bad("webc|port-still-answers", "after .webc the port answered %s %r" % (st, body[:40]))
            r2 = kl.ev(k, ".webc(wh)")
            if r2[0] == "ok" and canon(r2[1]) != ["I", 0]:
                bad("webc|second-close", "a second .webc(wh) returned %s" % brief(canon(r2[1])))
        res["show"] = {"routes": routes, "requests": len(case["requests"]), "log_entries": len(log), "tail": hist[-4:]}
    finally:
        try:
            kl.ev(k, ".webc(wh)")
        except Exception:
            pass
        try:
            cleanup_repl(loops)
        except Exception:
            pass


def rng_method(path):
    return "POST" if path.startswith("/P") else "GET"


# ------------------------------------------------------------------------------------ websocket

def _py_to_canon_json(v):
    """Canonical form a JSON value is expected to have once handed to a Klong handler."""
    from vf.core.canon import I, R, S, L, D
    if v is None:
        return ["N"]
    if isinstance(v, bool):
        return ["B", v]
    if isinstance(v, int):
        return I(v)
    if isinstance(v, float):
        return R(v)
    if isinstance(v, str):
        return S(v)
    if isinstance(v, list):
        return L([_py_to_canon_json(x) for x in v])
    if isinstance(v, dict):
        return D([(_py_to_canon_json(a), _py_to_canon_json(b)) for a, b in v.items()])
    raise ValueError(v)


def _json_kind(v):
    if v is None:
        return "null"
    if isinstance(v, bool):
        return "bool"
    if isinstance(v, (int, float)):
        return "number" if v else "zero"
    if isinstance(v, str):
        return "string" if v else "empty-string"
    if isinstance(v, list):
        if not v:
            return "empty-array"
        if any(isinstance(x, list) for x in v) and not all(isinstance(x, list) and len(x) == len(v[0]) for x in v if isinstance(v[0], list)):
            return "ragged-array"
        if any(isinstance(x, list) for x in v) and not all(isinstance(x, list) for x in v):
            return "ragged-array"
        return "array"
    return "object" if v else "empty-object"


def _run_ws(ctx, case, res):
    import asyncio
    import websockets
    from klongpy.repl import cleanup_repl
    from vf.mon.memstream import LoopThread
    cnt = res["counters"]
    srv = LoopThread("vf-wsserver")
    received_by_server = []
    conn = {}
    connected = threading.Event()

    async def handler(ws, path=None):
        conn["ws"] = ws
        connected.set()
        try:
            async for m in ws:
                received_by_server.append(m)
        except Exception:
            pass
    port = _free_port()

    async def start():
        return await websockets.serve(handler, "127.0.0.1", port)
    server = asyncio.run_coroutine_threadsafe(start(), srv.loop).result(20)
    k, loops = _mkrepl()
    log = []
    try:
        r = kl.ev(k, '.py("klongpy.ws")')
        if r[0] != "ok":
            res["harness_error"] = "cannot import klongpy.ws: %r" % (r,)
            return
        # JSON null arrives as Python None, which Klong reads as an empty argument slot: the invocation is
        # logged by tick(), the value by rec() when it is representable
        k["tick"] = lambda x: (log.append(("tick",)), 1)[1]
        k["rec"] = lambda x: (log.append(("val", x)), 1)[1]
        kl.ev(k, ".ws.m::{x;tick(0);rec(y)}")
        r = kl.ev(k, 'c::.ws("ws://127.0.0.1:%d")' % port)
        if r[0] != "ok" or not connected.wait(20):
            res["harness_error"] = "websocket client did not connect: %r" % (r,)
            return
        sent = []
        for mi in case["msgs"]:
            v = WS_MESSAGES[mi]
            sent.append(v)
            asyncio.run_coroutine_threadsafe(conn["ws"].send(json.dumps(v)), srv.loop).result(20)
        # quiescence is decided by a marker message sent last: messages of one connection are handled in order, so once the
        # marker has reached .ws.m every earlier message has been handled or dropped.  The wall-clock wait is only a watchdog.
        END = "__verif_end_of_sequence__"
        asyncio.run_coroutine_threadsafe(conn["ws"].send(json.dumps(END)), srv.loop).result(20)

        def _is_end(e):
            try:
                return e[0] == "val" and isinstance(e[1], str) and e[1] == END
            except Exception:
                return False
        t_end = time.time() + 60
        while time.time() < t_end and not any(_is_end(e) for e in list(log)):
            time.sleep(0.01)
        log = list(log)
        cnt["ws_sequences_closed_by_marker"] = 1 if any(_is_end(e) for e in log) else 0
        for i, e in enumerate(log):
            if _is_end(e):
                del log[i - 1 if i and log[i - 1][0] == "tick" else i:i + 1]
                break
        # pair every invocation with the value it logged (if any)
        got = []
        for e in log:
            if e[0] == "tick":
                got.append(["N"])
            elif got:
                got[-1] = canon(e[1])
        want = [_py_to_canon_json(v) for v in sent]
        cnt["ws_messages_sent"] = len(sent)
        cnt["ws_messages_delivered"] = len(got)
        res["nontrivial"] = True
        nulls = [i for i, w in enumerate(want) if w == ["N"]]
        if nulls and len(got) == len(want) - len(nulls):
            # a JSON null never reaches the handler: judged as its own mechanism, the rest of the sequence is still compared
            res["violations"].append({"sig": "ws-message|not-handed-to-handler|null", "what": "message #%d (JSON null) did not invoke .ws.m; %d of %d messages invoked it" % (nulls[0], len(got), len(want)),
                                      "detail": {"sent": sent}})
            want = [w for w in want if w != ["N"]]
            sent = [v for v in sent if v is not None]
        for i in range(max(len(got), len(want))):
            if i >= len(got):
                bad_kind = _json_kind(sent[i])
                res["violations"].append({"sig": "ws-message|lost-from|%s" % bad_kind, "what": "message #%d %r and everything after it never reached .ws.m (%d of %d delivered)" % (i, sent[i], len(got), len(sent)),
                                          "detail": {"sent": sent, "delivered": [brief(g) for g in got]}})
                break
            if i >= len(want):
                res["violations"].append({"sig": "ws-message|duplicate-or-extra", "what": "handler saw %d messages, %d were sent" % (len(got), len(want)), "detail": {"sent": sent}})
                break
            d = same(got[i], want[i], "match")
            if d and not (want[i][0] in ("N", "B")):
                res["violations"].append({"sig": "ws-message|altered|%s|%s" % (_json_kind(sent[i]), d), "what": "message #%d sent %r arrived as %s" % (i, sent[i], brief(got[i])), "detail": {"sent": sent}})
                break
        # values sent through the connection
        if not [v for v in res["violations"] if not v["sig"].endswith("|null")]:
            for si in case["sends"]:
                text, py = WS_SEND[si]
                n0 = len(received_by_server)
                r = kl.ev(k, "c(%s)" % text)
                for _ in range(3000):
                    if len(received_by_server) > n0:
                        break
                    time.sleep(0.01)
                cnt["ws_values_sent"] = cnt.get("ws_values_sent", 0) + 1
                if len(received_by_server) != n0 + 1:
                    res["violations"].append({"sig": "ws-send|not-delivered|%s" % _json_kind(py), "what": "c(%s): the server received %d frames" % (text, len(received_by_server) - n0), "detail": {}})
                    break
                try:
                    dec = json.loads(received_by_server[-1])
                except Exception:
                    dec = ("<not json>", received_by_server[-1])
                if dec != py:
                    res["violations"].append({"sig": "ws-send|encoding|%s" % _json_kind(py), "what": "c(%s) arrived as %r, expected the JSON encoding of %r" % (text, received_by_server[-1], py), "detail": {}})
                    break
        res["show"] = {"sent": sent[:8], "delivered": len(got), "client_sends": len(case["sends"])}
    finally:
        try:
            kl.ev(k, ".wsc(c)")
        except Exception:
            pass
        try:
            server.close()
        except Exception:
            pass
        try:
            cleanup_repl(loops)
        except Exception:
            pass
        srv.stop()


def run_case(ctx, case):
    res = {"nontrivial": False, "counters": {}, "violations": [], "key": repr(case)}
    if case["t"] == "web":
        _run_web(ctx, case, res)
    else:
        _run_ws(ctx, case, res)
    return res
