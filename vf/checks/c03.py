"""C03 - function application, projection, locals and conditionals follow substitution.

(i)   twin differential, no independent semantics: a generated body over x,y,z is rendered twice -
      with the parameters as symbols inside a function that is called in some call form, and with
      the evaluated arguments substituted as parenthesised literals; both texts go through the real
      interpreter and must match.
(ii)  scoping: snapshot of all user variables and the context-stack depth before/after a call that
      completes or fails at a chosen position inside up to three nested calls; a twin interpreter
      that never made the call then runs the same follow-up programs.
(iii) conditionals: Klong truth table (0, [] and "" are false), and only the selected branch runs
      (each branch is a Python callable that logs its invocation).
"""
import itertools
import random

from vf.core import kl
from vf.core.canon import canon, same, brief, shape_class, I, R, S, C, Y, L
from vf.core.render import render

PROPERTY = "C03"
LEVEL = "exploration"
RULE = ("case = (a) body AST (depth<=3 over x,y,z, literals, globals, + - * , & | # ) x call form {direct, via variable, @, each, over, .f recursion, every projection "
        "pattern of arity 2 and 3 filled in 1-3 steps in every order} x argument tuple; (b) a call chain of depth 1-3 with locals and a fault (Python callable that raises, "
        "index out of range, unknown function) at a chosen position, or none; (c) a conditional with a condition value from the truth universe. Distinct = distinct case; "
        "non-trivial = the two renderings were both evaluated and compared / the post-call snapshot was compared / the branch log was judged.")
ASSUMPTIONS = ["substitution is checked by twin rendering through the real interpreter: a defect of a verb shows on both sides alike and cannot alarm here",
               "deliberate assignments to existing globals are not generated inside the bodies of part (b)"]
MIN_COUNTS = {"quick": {"nontrivial": 2800, "substitutions_compared": 2200, "failing_calls_checked": 300, "conditionals_checked": 80, "projection_fills": 700},
              "thorough": {"nontrivial": 60000, "substitutions_compared": 50000, "failing_calls_checked": 5000, "conditionals_checked": 80, "projection_fills": 15000}}
CASE_TIMEOUT = 300
MEM_LIMIT_GB = 6

ARGS = [I(0), I(3), I(-2), R(2.5), L([I(1), I(2), I(3)]), L([]), L([R(1.5), R(0.5)]), S("ab"), L([L([I(1)]), L([I(2), I(3)])]), I(7)]
NUMARGS = [I(0), I(3), I(-2), R(2.5), I(7), L([I(1), I(2), I(3)]), L([I(4), I(5), I(6)])]


def _body(rng, params, d):
    if d == 0 or rng.random() < 0.25:
        r = rng.random()
        if r < 0.6:
            return ["p", rng.choice(params)]
        if r < 0.8:
            return ["lit", rng.choice([I(1), I(2), I(10), R(0.5), L([I(1), I(2), I(3)])])]
        return ["g", rng.choice(["ga", "gb"])]
    r = rng.random()
    if r < 0.7:
        return ["dy", rng.choice(["+", "-", "*", ",", "&", "|"]), _body(rng, params, d - 1), _body(rng, params, d - 1)]
    return ["mo", rng.choice(["-", "#", "|", ","]), _body(rng, params, d - 1)]


def _rt(t, sub):
    k = t[0]
    if k == "p":
        return sub[t[1]]
    if k == "lit":
        return "(%s)" % render(t[1])
    if k == "g":
        return t[1]
    if k == "dy":
        return "((%s)%s(%s))" % (_rt(t[2], sub), t[1], _rt(t[3], sub))
    return "(%s(%s))" % (t[1], _rt(t[2], sub))


def _params_used(t, acc):
    if t[0] == "p":
        acc.add(t[1])
    for x in t[1:]:
        if isinstance(x, list) and x and isinstance(x[0], str) and x[0] in ("p", "lit", "g", "dy", "mo"):
            _params_used(x, acc)
    return acc


PROJ2 = [("a;", [1]), (";b", [0])]
PROJ3 = [("a;;", [1, 2]), (";b;", [0, 2]), (";;c", [0, 1]), ("a;b;", [2]), ("a;;c", [1]), (";b;c", [0])]


def cases(tier, seed):
    rng = random.Random(3000 + seed)
    out = []
    n = 2600 if tier == "quick" else 75000
    forms1 = ["direct", "var", "at", "each", "dotf"]
    forms2 = ["direct", "var", "at", "over", "each2"]
    for i in range(n):
        ar = rng.choice([1, 2, 2, 3, 3])
        params = ["x", "y", "z"][:ar]
        body = _body(rng, params, rng.randint(1, 3))
        used = _params_used(body, set())
        if used != set(params):
            # arity is inferred from the parameters a body mentions: mention all of them
            for p in params:
                if p not in used:
                    body = ["dy", ",", body, ["p", p]]
        args = [rng.choice(ARGS if rng.random() < 0.5 else NUMARGS) for _ in range(ar)]
        if ar == 1:
            form = rng.choice(forms1)
        elif ar == 2:
            form = rng.choice(forms2 + ["proj"] * 3)
        else:
            form = rng.choice(["direct", "var", "proj", "proj", "proj", "proj"])
        c = {"t": "sub", "arity": ar, "body": body, "args": args, "form": form}
        if form == "proj":
            pat = rng.choice(PROJ2 if ar == 2 else PROJ3)
            holes = pat[1]
            # the order in which the holes are filled and in how many steps
            if len(holes) == 2:
                c["fill"] = rng.choice(["both", "first-then-second", "second-then-first"])
            else:
                c["fill"] = "one"
            c["pattern"] = pat[0]
            c["holes"] = holes
            c["via"] = rng.choice(["name", "inline"])
        out.append(c)
    # (a') text and other non-numeric arguments with bodies that work on any value, through every monadic call form
    # (a string is one argument, also through @)
    for a in (S("hello"), S("ab"), S("a"), S(""), C("q"), Y("sym"), L([S("ab"), S("c")])):
        for body in (["p", "x"], ["mo", "#", ["p", "x"]], ["dy", ",", ["p", "x"], ["p", "x"]], ["mo", "|", ["p", "x"]], ["mo", ",", ["p", "x"]],
                     ["dy", ",", ["lit", I(1)], ["p", "x"]]):
            for form in forms1:
                out.append({"t": "sub", "arity": 1, "body": body, "args": [a], "form": form})
    # (b) scoping / faults
    nb = 500 if tier == "quick" else 8000
    for i in range(nb):
        out.append({"t": "scope", "depth": rng.randint(1, 3), "fault": rng.choice(["none", "py-raise", "index", "unknown-fn", "py-raise", "index"]),
                    "fault_level": rng.randint(1, 3), "fault_pos": rng.choice(["first", "middle", "last"]), "arg": rng.choice(NUMARGS), "locals": rng.random() < 0.8,
                    "shadow": rng.random() < 0.5, "via": rng.choice(["direct", "each", "at", "var"])})
    # (c) conditionals
    conds = [("0", False), ("1", True), ("[]", False), ('""', False), ("[0]", True), ('"a"', True), ("2.5", True), ("0.0", False), ("(-1)", True), (":foo", True), ("[[]]", True),
             ("[[] []]", True), (",[]", True), ('[""]', True), ("0cx", True), ("[0 0]", True), ("!0", False), ("1-1", False), ("[1 2]?9", False), ("2#,[]", True), ('0_""', False), (":{}", None), ("0c0", True)]
    for text, truth in conds:
        for form in ("plain", "in-function", "nested", "elseif"):
            out.append({"t": "cond", "cond": text, "truth": truth, "form": form})
    return out


def init_shard(tier, seed):
    return {}


def _new():
    k = kl.new()
    kl.ev(k, "ga::5")
    kl.ev(k, "gb::[10 20 30]")
    return k


# ---------------------------------------------------------------------------------- (a)

def _run_sub(case, res):
    cnt = res["counters"]
    ar, body, args, form = case["arity"], case["body"], case["args"], case["form"]
    params = ["x", "y", "z"][:ar]
    A = ["(%s)" % render(a) for a in args]
    fn = "{%s}" % _rt(body, {p: p for p in params})
    subst = _rt(body, dict(zip(params, A)))
    pre = []
    expected_text = subst
    if form == "direct":
        call = "%s(%s)" % (fn, ";".join(A))
    elif form == "var":
        pre = ["f::%s" % fn]
        call = "f(%s)" % ";".join(A)
    elif form == "at":
        pre = ["f::%s" % fn]
        call = ("f@%s" % A[0]) if ar == 1 else ("f@[;%s]" % ";".join(A))
        if ar == 1 and args[0][0] == "L":
            return                  # f@list passes the members as the argument list
    elif form == "each":
        lst = [args[0], ARGS[1], ARGS[3]]
        call = "%s'[;%s]" % (fn, ";".join("(%s)" % render(a) for a in lst))
        expected_text = "[;%s]" % ";".join(_rt(body, {"x": "(%s)" % render(a)}) for a in lst)
    elif form == "over":
        lst = [args[0], args[1], ARGS[1]]
        call = "%s/[;%s]" % (fn, ";".join("(%s)" % render(a) for a in lst))
        first = _rt(body, {"x": "(%s)" % render(lst[0]), "y": "(%s)" % render(lst[1])})
        expected_text = _rt(body, {"x": "(%s)" % first, "y": "(%s)" % render(lst[2])})
    elif form == "each2":
        la, lb = [args[0], ARGS[1]], [args[1], ARGS[3]]
        call = "[;%s]%s'[;%s]" % (";".join("(%s)" % render(a) for a in la), fn, ";".join("(%s)" % render(a) for a in lb))
        expected_text = "[;%s]" % ";".join(_rt(body, {"x": "(%s)" % render(a), "y": "(%s)" % render(b)}) for a, b in zip(la, lb))
    elif form == "dotf":
        # recursion through .f: count down and apply the body at the bottom
        n = 3
        pre = ["f::{:[(y)<1;%s;.f(x;y-1)]}" % _rt(body, {"x": "x"})]
        call = "f(%s;%d)" % (A[0], n)
    elif form == "proj":
        holes, pat = case["holes"], case["pattern"]
        slots = pat.split(";")
        given = [A[i] if s else "" for i, s in enumerate(slots)]
        ptext = ";".join(given)
        base = fn if case["via"] == "inline" else "f"
        if case["via"] == "name":
            pre = ["f::%s" % fn]
        pre.append("p::%s(%s)" % (base, ptext))
        cnt["projection_fills"] = 1
        if case["fill"] in ("one", "both"):
            call = "p(%s)" % ";".join(A[i] for i in holes)
        elif case["fill"] == "first-then-second":
            pre.append("q::p(%s;)" % A[holes[0]])
            call = "q(%s)" % A[holes[1]]
        else:
            pre.append("q::p(;%s)" % A[holes[1]])
            call = "q(%s)" % A[holes[0]]
    else:
        raise ValueError(form)
    k1, k2 = _new(), _new()
    for s in pre:
        r = kl.ev(k1, s)
        if r[0] != "ok":
            res["violations"].append({"sig": _sig(case, "definition-raises:" + r[1]), "what": "%s raised %s %s" % (s, r[1], r[2][:80]), "detail": {"pre": pre}})
            return
    got = kl.ev(k1, call)
    want = kl.ev(k2, expected_text)
    res["show"] = {"program": "; ".join(pre + [call]), "substituted": expected_text}
    res["key"] = res["show"]["program"]
    cnt["substitutions_compared"] = 1
    cnt["form:" + form] = 1
    res["nontrivial"] = True
    if want[0] != "ok":
        if got[0] == "ok" and canon(got[1])[0] != "F":
            res["violations"].append({"sig": _sig(case, "value-where-substitution-raises"), "what": "%s returned %s but the substituted body %s raises %s" % (call, brief(canon(got[1])), expected_text, want[1]),
                                      "detail": res["show"]})
        return
    if got[0] != "ok":
        res["violations"].append({"sig": _sig(case, "raises:" + got[1]), "what": "%s raised %s (%s); the substituted body gives %s" % (res["show"]["program"], got[1], got[2][:60], brief(canon(want[1]))), "detail": res["show"]})
        return
    g, w = canon(got[1]), canon(want[1])
    d = same(g, w, "match")
    if d:
        if g[0] == "F":
            d = "unapplied-function"
        res["violations"].append({"sig": _sig(case, d), "what": "%s returned %s; the substituted body %s gives %s" % (res["show"]["program"], brief(g), expected_text, brief(w)), "detail": res["show"]})


def _sig(case, diff):
    s = "call|%s|arity%d" % (case["form"], case["arity"])
    if case["form"] == "proj":
        s += "|pattern(%s)|fill:%s|via:%s" % (case["pattern"], case["fill"], case["via"])
    return s + "|" + diff


# ---------------------------------------------------------------------------------- (b)

def _depth(k):
    return len(k._context._context)


def _run_scope(case, res):
    cnt = res["counters"]

    def build(k, with_call):
        boom = {"n": 0}

        def pyboom(x):
            raise RuntimeError("scripted failure")
        k["boom"] = pyboom
        kl.ev(k, "t::100")
        kl.ev(k, "u::[7 8 9]")
        kl.ev(k, "acc::0")
        fault = {"py-raise": "boom(x)", "index": "u@99", "unknown-fn": "nosuchfn(x)", "none": "x"}[case["fault"]]
        depth = case["depth"]
        flevel = min(case["fault_level"], depth)
        names = ["f1", "f2", "f3"]
        for lvl in range(depth, 0, -1):
            inner = ("%s(x+1)" % names[lvl]) if lvl < depth else "x*2"
            parts = ["a::x+1", "b::a*2"]
            core = inner
            if lvl == flevel and case["fault"] != "none":
                if case["fault_pos"] == "first":
                    parts = [fault] + parts
                elif case["fault_pos"] == "middle":
                    parts = parts[:1] + [fault] + parts[1:]
                else:
                    core = "(%s)+(%s)" % (inner, fault)
            loc = "[a b%s];" % (" t" if case["shadow"] else "") if case["locals"] else ""
            if not case["locals"]:
                parts = []
                if lvl == flevel and case["fault"] != "none" and case["fault_pos"] != "last":
                    parts = [fault]
            if case["shadow"] and case["locals"]:
                parts = ["t::x"] + parts
            bodytxt = loc + ";".join(parts + [core])
            kl.ev(k, "%s::{%s}" % (names[lvl - 1], bodytxt))
        return names

    A, B = _new(), _new()
    build(A, True)
    build(B, False)
    arg = "(%s)" % render(case["arg"])
    call = {"direct": "f1(%s)" % arg, "each": "f1'[;%s;%s]" % (arg, arg), "at": "f1@%s" % arg, "var": "h::f1;h(%s)" % arg}[case["via"]]
    if case["via"] == "at" and case["arg"][0] == "L":
        call = "f1(%s)" % arg
    pre_vars = kl.user_vars(A)
    pre_depth = _depth(A)
    r = kl.ev(A, call)
    post_vars = kl.user_vars(A)
    post_depth = _depth(A)
    res["nontrivial"] = True
    failed = r[0] != "ok"
    if failed:
        cnt["failing_calls_checked"] = 1
    else:
        cnt["completed_calls_checked"] = 1
    base = "scope|%s|depth%d|level%d|%s|via:%s|%s" % (case["fault"], case["depth"], min(case["fault_level"], case["depth"]), case["fault_pos"], case["via"], "locals" if case["locals"] else "no-locals")
    show = {"call": call, "fault": case["fault"], "outcome": r[0] + (":" + r[1] if failed else ""), "f1": None}
    res["show"] = show
    res["key"] = repr(case)
    if post_depth != pre_depth:
        res["violations"].append({"sig": base + "|context-depth", "what": "context stack depth %d before %s, %d after (%s)" % (pre_depth, call, post_depth, show["outcome"]), "detail": show})
        return
    ignore = {"h"} if case["via"] == "var" else set()
    for n in sorted(set(pre_vars) | set(post_vars)):
        if n in ignore:
            continue
        if n not in pre_vars:
            # evaluating an undefined symbol binds it to itself; anything else that appears leaked out of a call
            if post_vars[n][0] != ["Y", n.split("`")[0]]:
                res["violations"].append({"sig": base + "|leaked-variable", "what": "after %s (%s) a new variable %s = %s exists" % (call, show["outcome"], n, brief(post_vars[n][0])), "detail": show})
                return
            continue
        if n not in post_vars or same(pre_vars[n][0], post_vars[n][0], "exact"):
            res["violations"].append({"sig": base + "|caller-variable-changed", "what": "after %s (%s) variable %s went from %s to %s" % (call, show["outcome"], n, brief(pre_vars[n][0]),
                                      brief(post_vars[n][0]) if n in post_vars else "nothing"), "detail": show})
            return
    # follow-up programs: as if the call had not happened
    for fu in ["t+1", "a", "b", "x", "u,t", "{[a];a::x;a+t}(5)", "f1(1)" if case["fault"] == "none" else "acc", "g::{x+t};g(2)", ":[t;1;2]", "{x+y}(1;)(2)"]:
        ra, rb = kl.ev(A, fu), kl.ev(B, fu)
        if ra[0] != rb[0] or (ra[0] == "ok" and same(canon(ra[1]), canon(rb[1]), "exact")):
            res["violations"].append({"sig": base + "|follow-up-differs", "what": "after %s (%s) the program %s gives %s, in an interpreter that never made the call %s" % (
                call, show["outcome"], fu, ra[:2] if ra[0] != "ok" else brief(canon(ra[1])), rb[:2] if rb[0] != "ok" else brief(canon(rb[1]))), "detail": show})
            return


# ---------------------------------------------------------------------------------- (c)

def _run_cond(case, res):
    cnt = res["counters"]
    k = _new()
    log = []
    k["thenf"] = lambda x: (log.append("then"), 111)[1]
    k["elsef"] = lambda x: (log.append("else"), 222)[1]
    k["thirdf"] = lambda x: (log.append("third"), 333)[1]
    c = case["cond"]
    form = case["form"]
    if form == "plain":
        text = ":[%s;thenf(0);elsef(0)]" % c
        want_true, want_false = (["then"], 111), (["else"], 222)
    elif form == "in-function":
        text = "{:[x;thenf(0);elsef(0)]}(%s)" % c
        want_true, want_false = (["then"], 111), (["else"], 222)
    elif form == "nested":
        text = ":[1;:[%s;thenf(0);elsef(0)];thirdf(0)]" % c
        want_true, want_false = (["then"], 111), (["else"], 222)
    else:
        text = ":[0;thirdf(0):|%s;thenf(0);elsef(0)]" % c
        want_true, want_false = (["then"], 111), (["else"], 222)
    r = kl.ev(k, text)
    res["show"] = {"program": text, "log": list(log)}
    res["key"] = text
    if case["truth"] is None:
        return
    res["nontrivial"] = True
    cnt["conditionals_checked"] = 1
    want = want_true if case["truth"] else want_false
    cclass = "false-value" if not case["truth"] else "true-value"
    if r[0] != "ok":
        res["violations"].append({"sig": "cond|%s|%s|raises:%s" % (form, cclass, r[1]), "what": "%s raised %s" % (text, r[1]), "detail": res["show"]})
        return
    if log != want[0]:
        kind = "both-branches" if len(log) > 1 else ("wrong-branch" if log else "no-branch")
        res["violations"].append({"sig": "cond|%s|%s|%s" % (form, cclass, kind), "what": "%s ran branches %r; condition %s is %s in Klong, expected %r" % (text, log, c, "true" if case["truth"] else "false", want[0]),
                                  "detail": res["show"]})
        return
    if canon(r[1]) != ["I", want[1]]:
        res["violations"].append({"sig": "cond|%s|%s|value" % (form, cclass), "what": "%s returned %s, the selected branch returned %d" % (text, brief(canon(r[1])), want[1]), "detail": res["show"]})


def run_case(ctx, case):
    res = {"nontrivial": False, "counters": {}, "violations": [], "key": repr(case)}
    {"sub": _run_sub, "scope": _run_scope, "cond": _run_cond}[case["t"]](case, res)
    return res
