"""C11 - readable output reads back to the same value (.w/.rs, .w/.r through file channels, Format/Form)."""
import random

from vf.core import kl
from vf.core.canon import canon, same, shape_class, brief, I, R, C, S, Y, L, D
from vf.core import universe as U

PROPERTY = "C11"
LEVEL = "exploration"
RULE = ("each case is one data value built through the Python API (klong['v']=...), written by the real .w, "
        "read by the real .rs, compared with Klong match (~) and canonically, re-written and compared as text; "
        "atoms additionally go through x:$$x. Distinct = distinct canonical value; non-trivial = the write "
        "produced text and the read returned (round trip actually completed or was judged).")
ASSUMPTIONS = ["CPython float repr is the shortest round-tripping decimal", "inf/nan are outside the reader's domain",
               "values are built with the backend's own kg_asarray, as the reader builds them"]
MIN_COUNTS = {"nontrivial": 300, "form_format_checked": 40, "roundtrips": 300, "channel_roundtrips": 600}
CASE_TIMEOUT = 60
MEM_LIMIT_GB = 6

HOSTILE = ['"', ' ', '\n', '[', ']', ':', '"', 'a', '0', 'c', '{', '}', ';', '\t', "'", '\\', '-', 'e', '.']


def _features(c):
    """Mechanism-level feature of an atom, for finding keys."""
    k = c[0]
    if k == "R":
        r = repr(c[1])
        f = "exp" if "e" in r else "plain"
        return "real:%s%s" % (f, ":neg" if c[1] < 0 else "")
    if k == "I":
        return "int:%s" % ("neg" if c[1] < 0 else "nonneg") + (":big" if abs(c[1]) >= 2 ** 63 else "")
    if k == "S":
        fs = [n for ch, n in (('"', "quote"), ("\n", "newline"), (":", "colon"), ("[", "bracket"), ("\\", "backslash")) if ch in c[1]]
        return "str:" + ("+".join(fs) or "plain")
    if k == "C":
        ch = c[1]
        return "char:" + ("quote" if ch == '"' else "blank" if ch.isspace() else "alnum" if ch.isalnum() else "punct")
    if k == "Y":
        return "sym"
    return shape_class(c)


def cases(tier, seed):
    rng = random.Random(1000 + seed)
    out = []
    base = U.universe(with_dicts=True)
    out += base
    ext_reals = [1e100, 1e-100, 1.5e300, 5e-324, -1e22, 1e16, 123456789.123, 0.1, -0.0, 1e15, 2.5e-5, 1.0e21, 7e-10, 3.0]
    out += [R(x) for x in ext_reals]
    out += [I(x) for x in (-1, -2 ** 31, -2 ** 62, 2 ** 63 - 1, -2 ** 63, 10 ** 18, 42)]
    out += [C(ch) for ch in HOSTILE]
    # strings over the hostile alphabet: all of length <=2, seeded longer ones
    for a in HOSTILE:
        out.append(S(a))
    for a in HOSTILE:
        for b in HOSTILE:
            out.append(S(a + b))
    nstr = 300 if tier == "quick" else 6000
    for _ in range(nstr):
        out.append(S("".join(rng.choice(HOSTILE) for _ in range(rng.randint(3, 12)))))
    # nestings to depth 3 of atoms of every kind
    nnest = 1500 if tier == "quick" else 60000
    for _ in range(nnest):
        out.append(U.rand_value(rng, depth=3, kinds="IRCSY", maxlen=4))
    # lists whose elements are the hostile atoms
    for a in out[:200]:
        if a[0] != "L" and a[0] != "D":
            out.append(L([a]))
            out.append(L([a, L([a])]))
    # dictionaries
    ndict = 150 if tier == "quick" else 3000
    for _ in range(ndict):
        n = rng.randint(0, 4)
        items = {}
        for _ in range(n):
            kk = U.rand_atom(rng, "IRCSY")
            items[repr(kk)] = (kk, U.rand_value(rng, depth=2, maxlen=3))
        out.append(D(list(items.values())))
    # de-duplicate, keep order
    seen, res = set(), []
    for c in out:
        r = repr(c)
        if r not in seen:
            seen.add(r)
            res.append(c)
    return res


def init_shard(tier, seed):
    import os, tempfile
    from vf.core import env
    d = tempfile.mkdtemp(prefix="c11-", dir=env.scratch_root())
    return {"k": kl.new(), "dir": d}


def finish_shard(ctx):
    import shutil
    shutil.rmtree(ctx["dir"], ignore_errors=True)
    return {}


def _roundtrip(k, c):
    """Returns (status, detail). status in ok / diff:<what> / raises:<where>:<type> / skip"""
    try:
        v = kl.topy(c, k)
    except Exception as e:
        return "skip", {"build": repr(e)}
    # the value must be what we meant (self-check of the harness' constructor)
    d0 = same(canon(v), c, "exact")
    if d0:
        return "skip", {"constructor": d0}
    k["v"] = v
    k._vf_out.take()
    r = kl.ev(k, ".w(v)")
    text = k._vf_out.take()
    if r[0] != "ok":
        return "raises:write:" + r[1], {"msg": r[2]}
    k["t"] = text
    r2 = kl.ev(k, "w::.rs(t)")
    if r2[0] != "ok":
        return "raises:read:" + r2[1], {"text": text, "msg": r2[2]}
    back = canon(k["w"])
    if back[0] == "F" and c[0] != "F":
        return "diff:readback-kind:function-object", {"text": text, "back": brief(back)}
    d = same(back, c, "match")
    if c[0] == "D":
        # Klong's ~ is not defined on dictionaries by the reference: decided canonically only
        cm = ["I", 1]
    else:
        m = kl.ev(k, "v~w")
        if m[0] != "ok":
            return "raises:match:" + m[1], {"text": text}
        cm = canon(m[1])
    if cm != ["I", 1] or d:
        return "diff:value:" + (d or "klong-match-0"), {"text": text, "back": brief(back), "klong_match": brief(cm)}
    k._vf_out.take()
    r3 = kl.ev(k, ".w(w)")
    text2 = k._vf_out.take()
    if r3[0] != "ok":
        return "raises:rewrite:" + r3[1], {"text": text}
    if text2 != text:
        return "diff:rewrite-text", {"text": text, "text2": text2}
    return "ok", {"text": text}


def _channel_roundtrip(ctx, k, c, sep):
    """v and a sentinel written to a file through an output channel (.oc/.tc/.w), read back through an input
    channel with .r twice: the first object must match v, the second must be the sentinel (the reader stopped
    exactly after the first object)."""
    import os
    from vf.core import env
    path = os.path.join(ctx["dir"], "chan.txt")
    k["v"] = kl.topy(c, k)
    k["p"] = path
    k["s"] = sep
    saved = (k[".sys.cout"], k[".sys.cin"])
    try:
        return _channel_roundtrip2(k, c, path)
    finally:
        k[".sys.cout"], k[".sys.cin"] = saved


def _channel_roundtrip2(k, c, path):
    for t in ("o::.oc(p)", ".tc(o)", ".w(v)", ".d(s)", ".w(-4242)", ".cc(o)"):
        r = kl.ev(k, t)
        if r[0] != "ok":
            kl.ev(k, ".cc(o)")
            return "raises:chan-write:" + r[1], {"stmt": t, "msg": r[2]}
    try:
        text = open(path, encoding="utf8").read()
    except OSError as e:
        return "skip", {"io": repr(e)}
    out = {}
    st = "ok"
    for t in ("i::.ic(p)", ".fc(i)", "w::.r()", "q::.r()"):
        r = kl.ev(k, t)
        if r[0] != "ok":
            st = "raises:chan-read:" + r[1]
            out = {"stmt": t, "msg": r[2], "text": text}
            break
    kl.ev(k, ".cc(i)")
    if st != "ok":
        return st, out
    back, q = canon(k["w"]), canon(k["q"])
    d = same(back, c, "match")
    if d:
        return "diff:chan-value:" + d, {"text": text, "back": brief(back)}
    if q != ["I", -4242]:
        return "diff:chan-position", {"text": text, "second_object": brief(q)}
    return "ok", {"text": text}


def _form_format(k, c):
    v = kl.topy(c, k)
    k["v"] = v
    r = kl.ev(k, "v:$$v")
    if r[0] != "ok":
        return "raises:form:" + r[1], {"msg": r[2]}
    back = canon(r[1])
    k["w"] = r[1]
    m = kl.ev(k, "v~w")
    d = same(back, c, "match")
    if m[0] != "ok" or canon(m[1]) != ["I", 1] or d:
        return "diff:form:" + (d or "klong-match-0"), {"back": brief(back)}
    return "ok", {}


def _blame_chan(ctx, k, c, status, sep):
    subs = c[1] if c[0] == "L" else [x for kv in c[1] for x in kv]
    for x in subs:
        st, _ = _channel_roundtrip(ctx, k, x, sep)
        if st == status:
            return _blame_chan(ctx, k, x, status, sep) if x[0] in ("L", "D") else _features(x)
    return _features(c)


def _blame(k, c, status):
    """Smallest sub-value that fails on its own with the same status -> mechanism key."""
    if c[0] == "L":
        for x in c[1]:
            st, _ = _roundtrip(k, x)
            if st == status:
                return _blame(k, x, status)
    if c[0] == "D":
        for a, b in c[1]:
            for x in (a, b):
                st, _ = _roundtrip(k, x)
                if st == status:
                    return _blame(k, x, status)
    return _features(c)


def run_case(ctx, c):
    k = ctx["k"]
    res = {"nontrivial": False, "key": repr(c), "counters": {}, "violations": [], "show": {"value": brief(c)}}
    st, det = _roundtrip(k, c)
    cls = shape_class(c)
    res["counters"]["class:" + cls] = 1
    if st == "skip":
        res["counters"]["skipped_constructor"] = 1
        return res
    res["nontrivial"] = True
    res["counters"]["roundtrips"] = 1
    res["show"]["text"] = det.get("text")
    if st != "ok":
        where = _blame(k, c, st)
        res["violations"].append({"sig": "roundtrip|%s|%s" % (st, where),
                                  "what": "%s for %s" % (st, brief(c)), "detail": det})
    if c[0] != "D" or True:
        for sep, sname in ((" ", "blank"), ("\n", "newline")):
            st3, det3 = _channel_roundtrip(ctx, k, c, sep)
            if st3 == "skip":
                continue
            res["counters"]["channel_roundtrips"] = res["counters"].get("channel_roundtrips", 0) + 1
            if st3 != "ok":
                res["violations"].append({"sig": "channel|%s|%s|%s" % (sname, st3, _features(c) if c[0] not in ("L", "D") else _blame_chan(ctx, k, c, st3, sep)),
                                          "what": ".w to a file then .r: %s for %s" % (st3, brief(c)), "detail": det3})
    if c[0] in ("I", "R", "C", "S", "Y"):
        st2, det2 = _form_format(k, c)
        res["counters"]["form_format_checked"] = 1
        if st2 != "ok":
            res["violations"].append({"sig": "formformat|%s|%s" % (st2, _features(c)),
                                      "what": "x:$$x %s for %s" % (st2, brief(c)), "detail": det2})
    return res
