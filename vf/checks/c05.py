"""C05 - compiled and interpreted execution of an expression are indistinguishable.

Twin differential monitor: the same program runs in interpreter A (real compiler, instrumented)
and in twin B for which klongpy.interpreter.compile_expr answers None.  The switch is installed
by attribute assignment from the harness; it also records whether the compiled callable was
really invoked and returned (only those cases are non-trivial).
"""
import itertools
import random

from vf.core import kl
from vf.core.canon import canon, same, shape_class, brief, I, R, L
from vf.core.render import render

PROPERTY = "C05"
LEVEL = "exploration"
RULE = ("case = (expression tree of the compilable grammar, evaluation position, binding(s), optional rebinding, backend); "
        "run in a compiling interpreter and in a twin whose compile_expr is stubbed to None; results compared exactly "
        "(structure, elements, integer/real kind; error~error, undefined~undefined). Non-trivial = the compiled callable "
        "was invoked and returned in the compiling twin; distinct = distinct (expression text, position, binding classes).")
ASSUMPTIONS = ["klongpy.interpreter looks compile_expr up as a module global at call time (checked: a run with 0 compiled invocations is inconclusive)",
               "bindings are restricted to the property's universe (integers, reals, numeric vectors, matrices, nested lists, [])"]
MIN_COUNTS = {"quick": {"compiled_ran": 2000, "nontrivial": 500}, "thorough": {"compiled_ran": 20000, "nontrivial": 5000}}
CASE_TIMEOUT = 120

ARITH = ["+", "-", "*", "%", "^"]
CMP = ["<", ">", "="]
RS = ["+", "*", "|", "&"]


def _binds():
    m22 = L([L([I(1), I(2)]), L([I(3), I(4)])])
    m22r = L([L([R(1.5), R(2.0)]), L([R(0.5), R(-1.0)])])
    return {
        "int": [I(4), I(0), I(-3), I(2)],
        "real": [R(2.5), R(-0.5), R(4.0)],
        "vecI": [L([I(1), I(2), I(3)]), L([I(4)]), L([I(0), I(-2), I(5), I(2)])],
        "vecR": [L([R(1.5), R(2.0), R(-0.25)]), L([R(4.0), R(9.0)])],
        "empty": [L([])],
        "mat": [m22, m22r],
        "nested": [L([L([I(1)]), L([I(2), I(3)])]), L([I(1), L([I(2), I(3)])])],
    }


def _trees(depth, vars_, rng, n):
    """Seeded random trees of exactly the requested maximal depth (>=1)."""
    def leaf():
        if rng.random() < 0.7:
            return ["var", rng.choice(vars_)]
        return ["lit", rng.choice([0, 1, 2, 3, 0.5, 2.0, 10])]

    def gen(d):
        if d == 0:
            return leaf()
        r = rng.random()
        if r < 0.5:
            return ["bin", rng.choice(ARITH), gen(d - 1), gen(rng.randint(0, d - 1))]
        if r < 0.65:
            return ["cmp", rng.choice(CMP), gen(d - 1), gen(rng.randint(0, d - 1))]
        if r < 0.75:
            return ["neg", gen(d - 1)]
        if r < 0.9:
            return ["red", rng.choice(RS), gen(d - 1)]
        return ["scan", rng.choice(RS), gen(d - 1)]
    return [gen(depth) for _ in range(n)]


def _all_depth1(vars_):
    out = []
    leaves = [["var", v] for v in vars_] + [["lit", 2], ["lit", 0.5], ["lit", 0]]
    for op in ARITH:
        for l, r in itertools.product(leaves, leaves):
            if l[0] == "lit" and r[0] == "lit":
                continue
            out.append(["bin", op, l, r])
    for op in CMP:
        for l, r in itertools.product(leaves, leaves):
            if l[0] == "lit" and r[0] == "lit":
                continue
            out.append(["cmp", op, l, r])
    for v in vars_:
        out.append(["neg", ["var", v]])
        for op in RS:
            out.append(["red", op, ["var", v]])
            out.append(["scan", op, ["var", v]])
    return out


def text(t, subst=None):
    k = t[0]
    if k == "var":
        return (subst or {}).get(t[1], t[1])
    if k == "lit":
        return repr(t[1])
    if k == "bin" or k == "cmp":
        return "(%s)%s(%s)" % (text(t[2], subst), t[1], text(t[3], subst)) if True else ""
    if k == "neg":
        return "-(%s)" % text(t[1], subst)
    if k == "red":
        return "%s/(%s)" % (t[1], text(t[2], subst))
    if k == "scan":
        return "%s\\(%s)" % (t[1], text(t[2], subst))
    raise ValueError(k)


def _vars_of(t, acc=None):
    acc = acc if acc is not None else []
    if t[0] == "var":
        if t[1] not in acc:
            acc.append(t[1])
    else:
        for x in t[1:]:
            if isinstance(x, list):
                _vars_of(x, acc)
    return acc


def _fix_backend(case):
    """Nested / ragged lists are NumPy object arrays under the torch backend, not tensors:
    they are outside what that backend computes on, so such bindings run on numpy only."""
    allb = list(case["binds"].values()) + list((case["rebind"] or {}).values())
    if case["backend"] == "torch" and any(shape_class(c) in ("nested", "ragged") for c in allb):
        case["backend"] = "numpy"
    return case


def cases(tier, seed):
    return [_fix_backend(c) for c in _cases(tier, seed)]


def _cases(tier, seed):
    rng = random.Random(5000 + seed)
    B = _binds()
    classes = list(B)
    out = []
    positions = ["top", "fn", "param", "operand"]
    backends = ["numpy", "torch"]
    # depth 1: every operator x leaf pattern x every pair of binding classes (first member of each class)
    d1 = _all_depth1(["a", "b"])
    for t in d1:
        vs = _vars_of(t)
        combos = list(itertools.product(classes, repeat=len(vs)))
        for combo in combos:
            for pos in positions:
                if tier == "quick" and rng.random() > 0.16:
                    continue
                binds = {v: rng.choice(B[c]) for v, c in zip(vs, combo)}
                out.append({"tree": t, "pos": pos, "binds": binds, "rebind": None, "via": rng.choice(["kg", "py"]),
                            "backend": "numpy" if rng.random() < 0.8 else "torch"})
    # depth 2..3 random trees
    n2 = 1500 if tier == "quick" else 40000
    for t in _trees(2, ["a", "b"], rng, n2) + _trees(3, ["a", "b", "c"], rng, n2 // 2):
        vs = _vars_of(t)
        if not vs:
            continue
        binds = {v: rng.choice(B[rng.choice(classes)]) for v in vs}
        out.append({"tree": t, "pos": rng.choice(positions), "binds": binds, "rebind": None,
                    "via": rng.choice(["kg", "py"]), "backend": "numpy" if rng.random() < 0.8 else "torch"})
    # rebinding histories: evaluate, rebind to another kind/shape, evaluate the same text again (twice)
    n3 = 1500 if tier == "quick" else 30000
    pool = d1 + _trees(2, ["a", "b"], rng, 400)
    for _ in range(n3):
        t = rng.choice(pool)
        vs = _vars_of(t)
        if not vs:
            continue
        b1 = {v: rng.choice(B[rng.choice(classes)]) for v in vs}
        b2 = {v: rng.choice(B[rng.choice(classes)]) for v in vs}
        out.append({"tree": t, "pos": rng.choice(positions), "binds": b1, "rebind": b2,
                    "via": rng.choice(["kg", "py"]), "backend": "numpy" if rng.random() < 0.85 else "torch"})
    return out


# ----------------------------------------------------------------------------- the switch

class Switch:
    def __init__(self):
        import klongpy.interpreter as ki
        self.ki = ki
        self.real = ki.compile_expr
        self.installed = False

    def install(self):
        real = self.real

        def switch(ast, klong):
            st = getattr(klong, "_vf_c", None)
            if st is None:
                return real(ast, klong)
            if st.get("off"):
                st["stubbed"] = st.get("stubbed", 0) + 1
                return None
            res = real(ast, klong)
            if not res:
                st["declined"] = st.get("declined", 0) + 1
                return res
            fn, syms = res
            st["accepted"] = st.get("accepted", 0) + 1

            def counted(*args, _fn=fn, _st=st):
                try:
                    r = _fn(*args)
                except BaseException:
                    _st["raised"] = _st.get("raised", 0) + 1
                    raise
                _st["ran"] = _st.get("ran", 0) + 1
                return r
            return (counted, syms)
        self.ki.compile_expr = switch
        self.installed = True


def init_shard(tier, seed):
    sw = Switch()
    sw.install()
    return {"switch": sw}


def _program(case):
    t, pos = case["tree"], case["pos"]
    vs = _vars_of(t)
    if pos == "top":
        return [], text(t)
    if pos == "fn":
        return ["f::{%s}" % text(t)], "f()"
    if pos == "param":
        names = ["x", "y", "z"]
        sub = {v: names[i] for i, v in enumerate(vs)}
        return ["g::{%s}" % text(t, sub)], "g(%s)" % ";".join(vs)
    if pos == "operand":
        return [], ",(%s)" % text(t)
    raise ValueError(pos)


def _bind(k, binds, via):
    for name, c in binds.items():
        if via == "kg":
            r = kl.ev(k, "%s::%s" % (name, render(c)))
            if r[0] != "ok":
                k[name] = kl.topy(c, k)
        else:
            k[name] = kl.topy(c, k)


def _outcome(r):
    if r[0] == "err":
        return ["err", r[1]]
    return canon(r[1])


def _run(case, off):
    k = kl.new(case["backend"] if case["backend"] != "numpy" else None)
    st = {"off": off}
    k._vf_c = st
    _bind(k, case["binds"], case["via"])
    pre, expr = _program(case)
    res = []
    for p in pre:
        kl.ev(k, p)
    res.append(_outcome(kl.ev(k, expr)))
    res.append(_outcome(kl.ev(k, expr)))          # same text again: parse cache + compiled cache
    if case["rebind"]:
        _bind(k, case["rebind"], case["via"])
        res.append(_outcome(kl.ev(k, expr)))
        res.append(_outcome(kl.ev(k, expr)))
    return res, st


def _has_u(c):
    if c[0] == "U":
        return True
    if c[0] == "L":
        return any(_has_u(x) for x in c[1])
    return False


def _cmp(a, b, backend):
    if a[0] == "err" or b[0] == "err":
        return None if a[0] == b[0] else "error-vs-value"
    if _has_u(a) != _has_u(b):
        return "undefined-vs-value"
    return same(a, b, "exact" if backend == "numpy" else "f32")


def _subtrees(t):
    out = [t]
    for x in t[1:]:
        if isinstance(x, list):
            out += _subtrees(x)
    return out


def _node_name(t):
    return {"bin": "binop", "cmp": "cmp", "neg": "negate", "red": "reduce", "scan": "scan", "var": "var", "lit": "lit"}[t[0]] + (t[1] if t[0] in ("bin", "cmp", "red", "scan") else "")


def _coarse(c):
    sc = shape_class(c)
    if sc in ("int0", "int+", "int-"):
        return "int"
    if sc in ("ragged", "nested"):
        return "nested"
    if sc.startswith("rank"):
        return "rankN"
    return sc


def _eval_b(t, binds, backend):
    k = kl.new(backend if backend != "numpy" else None)
    k._vf_c = {"off": True}
    for name, c in binds.items():
        k[name] = kl.topy(c, k)
    r = kl.ev(k, text(t))
    return None if r[0] != "ok" else canon(r[1])


def _probe(node, child_vals, backend, np_scalars=False, via_compiled=False):
    """One IR node applied to fresh variables bound to its children's interpreted values:
    compiled twin vs interpreted twin.  With np_scalars, scalar operands are supplied as the
    result of a compiled +/[v] (a NumPy/torch scalar, as compiled intermediates are)."""
    names = ["p", "q"]
    sub = list(node)
    binds = {}
    j = 0
    for i, x in enumerate(node):
        if isinstance(x, list):
            v = child_vals[j]
            if np_scalars and v[0] in ("I", "R"):
                sub[i] = ["red", "+", ["var", names[j]]]
                binds[names[j]] = ["L", [v]]
            elif via_compiled and v[0] == "L":
                # the operand as a compiled intermediate: (p)+(0) evaluated by compiled code
                sub[i] = ["bin", "+", ["var", names[j]], ["lit", 0]]
                binds[names[j]] = v
            else:
                sub[i] = ["var", names[j]]
                binds[names[j]] = v
            j += 1
    if not binds:
        return None
    c2 = {"tree": sub, "pos": "top", "binds": binds, "rebind": None, "via": "py", "backend": backend}
    ra, sa = _run(c2, False)
    rb, _ = _run(c2, True)
    return _cmp(ra[0], rb[0], backend) or _cmp(ra[1], rb[1], backend)


def _blame(case, binds, idx):
    """First node (post-order) whose single-operator probe already differs -> mechanism key."""
    backend = case["backend"]

    def post(t):
        out = []
        for x in t[1:]:
            if isinstance(x, list):
                out += post(x)
        out.append(t)
        return out
    for node in post(case["tree"]):
        if node[0] in ("var", "lit"):
            continue
        kids = [x for x in node[1:] if isinstance(x, list)]
        vals = [_eval_b(x, binds, backend) for x in kids]
        if any(v is None or v[0] not in ("I", "R", "L") for v in vals):
            continue
        d = _probe(node, vals, backend)
        if d:
            return node, d, [_coarse(v) for v in vals]
        if any(v[0] in ("I", "R") for v in vals):
            d = _probe(node, vals, backend, np_scalars=True)
            if d:
                return node, d, [_coarse(v) + ("(np)" if v[0] in ("I", "R") else "") for v in vals]
        if any(_coarse(v) == "nested" for v in vals):
            d = _probe(node, vals, backend, via_compiled=True)
            if d:
                return node, d, [_coarse(v) + ("(compiled-intermediate)" if v[0] == "L" else "") for v in vals]
    return None


def run_case(ctx, case):
    res = {"nontrivial": False, "counters": {}, "violations": []}
    pre, expr = _program(case)
    show = {"program": "; ".join(pre + [expr]), "binds": {v: brief(c) for v, c in case["binds"].items()},
            "rebind": {v: brief(c) for v, c in (case["rebind"] or {}).items()} or None, "pos": case["pos"], "backend": case["backend"]}
    res["show"] = show
    ra, sa = _run(case, False)
    rb, sb = _run(case, True)
    ran = sa.get("ran", 0)
    res["counters"].update({"compiled_ran": ran, "compiled_raised_fell_back": sa.get("raised", 0),
                            "compiler_accepted": sa.get("accepted", 0), "compiler_declined": sa.get("declined", 0),
                            "twin_stub_calls": sb.get("stubbed", 0), "pos:" + case["pos"]: 1, "backend:" + case["backend"]: 1})
    if case["rebind"]:
        res["counters"]["rebinding_cases"] = 1
    if sb.get("ran") or (sb.get("stubbed", 0) == 0 and sa.get("accepted", 0) > 0):
        res["harness_error"] = "twin B compiled something: the switch is not in effect"
        return res
    classes = ",".join("%s:%s" % (v, shape_class(c)) for v, c in sorted(case["binds"].items()))
    res["key"] = "%s|%s|%s|%s|%s" % (show["program"], classes, case["pos"], bool(case["rebind"]), case["backend"])
    if ran:
        res["nontrivial"] = True
    show["compiled"] = [brief(x) if x[0] != "err" else "error" for x in ra]
    show["interpreted"] = [brief(x) if x[0] != "err" else "error" for x in rb]
    for idx, (x, y) in enumerate(zip(ra, rb)):
        d = _cmp(x, y, case["backend"])
        if not d:
            continue
        binds = case["binds"] if idx < 2 else dict(case["binds"], **case["rebind"])
        bl = _blame(case, binds, idx)
        if bl:
            sub, d2, ops = bl
            sig = "%s|%s|%s|%s" % (_node_name(sub), ",".join(ops), d2, case["backend"])
            what = "compiled %s vs interpreted %s for %s with %s (first diverging node: %s on operands %s)" % (
                brief(x) if x[0] != "err" else "error", brief(y) if y[0] != "err" else "error", show["program"],
                show["binds"] if idx < 2 else show["rebind"], _node_name(sub), ",".join(ops))
        elif case["backend"] == "torch" and d == "error-vs-value" and y[0] == "err" and y[1] == "TypeError":
            # the torch interpreter path itself rejects an intermediate (not a compiler effect)
            sig = "torch-interpreter-raises|TypeError"
            what = "torch: interpreted path raises TypeError where the compiled path returns %s for %s" % (show["compiled"][idx], show["program"])
        elif any(_coarse(c) == "nested" for c in binds.values()):
            # nested (object-dtype) operands: compiled code applies NumPy object-array semantics
            sig = "nested-binding|%s|%s" % (d, case["backend"])
            what = "compiled %s vs interpreted %s for %s with nested binding %s" % (show["compiled"][idx], show["interpreted"][idx], show["program"], show["binds"])
        else:
            # differs only in context (position / history): that is the interesting, unlisted kind
            sig = "context-only|%s|%s|rebind=%s|eval#%d|%s|%s" % (_node_name(case["tree"]), case["pos"], bool(case["rebind"]), idx, d, case["backend"])
            what = "compiled %s vs interpreted %s only in position %s / history (eval #%d) for %s" % (show["compiled"][idx], show["interpreted"][idx], case["pos"], idx, show["program"])
        res["violations"].append({"sig": sig, "what": what, "detail": show})
        break
    return res
