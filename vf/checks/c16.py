"""C16 - the file-backed key-value and table stores are persistent dictionaries.

Model-based history check at the store boundary (Klong level d,k,v / d?k for the key-value store,
TableStorage.set/get for the table store) plus an invariant monitor evaluated under the cache's
own lock at quiescent points after every operation:
   current_memory_usage == sum of recorded claims == sum of the real sizes of the held entries,
   0 <= current_memory_usage <= max_memory, every heap name is a cached entry,
   every key file on disk deserialises to the model's value.
"""
import os
import random
import shutil

from vf.core import kl, env
from vf.core.canon import canon, same, brief, I, R, S, C, Y, L, D
from vf.core import universe as U

PROPERTY = "C16"
LEVEL = "exploration"
RULE = ("case = history of 5-14 operations (set, get, get of a never-set key, reopen the store on the same directory, unload an entry, a value larger than "
        "the limit) over flat and nested keys x a cache limit class (fits one entry / two entries / everything) x store kind (key-value through Klong d,k,v and d?k; "
        "table store through TableStorage.set/get); each result compared with a dict model, accounting invariants checked after every operation. "
        "Distinct = distinct history; non-trivial = at least one get was compared after a set.")
ASSUMPTIONS = ["single client thread (concurrency is C18's subject): invariants are evaluated when all futures are done, under the cache's own lock",
               "keys are non-prefix-conflicting paths (a key is never a directory of another key)",
               "pickle round-trips the value universe"]
MIN_COUNTS = {"quick": {"nontrivial": 800, "gets_compared": 3000, "invariant_checks": 8000, "evictions_observed": 200, "reopens": 400},
              "thorough": {"nontrivial": 15000, "gets_compared": 60000, "invariant_checks": 150000, "evictions_observed": 4000, "reopens": 8000}}
CASE_TIMEOUT = 120

KEYS = ["a", "b", "k1", "dir/x", "dir/y", "deep/er/z", "other/w"]
VALUES = [I(0), I(42), R(2.5), S(""), S("hello"), C("c"), Y("sym"), L([]), L([I(1), I(2), I(3)]), L([R(1.5), R(-2.0)]),
          L([S("ab"), S("cd")]), L([L([I(1)]), L([I(2), I(3)])]), D([(S("k"), I(1)), (I(2), L([I(1)]))]), S("x" * 300), L([I(i) for i in range(60)])]


def _gen(rng, kind):
    n = rng.randint(5, 14)
    ops = []
    used = []
    for _ in range(n):
        r = rng.random()
        if r < 0.38 or not used:
            k = rng.choice(KEYS)
            ops.append(["set", k, rng.randrange(len(VALUES)) if kind == "kv" else rng.randint(0, 10 ** 6)])
            if k not in used:
                used.append(k)
        elif r < 0.70:
            ops.append(["get", rng.choice(used)])
        elif r < 0.78:
            ops.append(["get", rng.choice(KEYS + ["never/set", "nope"])])
        elif r < 0.88:
            ops.append(["reopen"])
        elif r < 0.95:
            ops.append(["unload", rng.choice(used)])
        else:
            ops.append(["oversize", rng.choice(KEYS)])
    return ops


def cases(tier, seed):
    rng = random.Random(16000 + seed)
    n = 1500 if tier == "quick" else 30000
    out = []
    for i in range(n):
        kind = "kv" if i % 3 else "table"
        out.append({"kind": kind, "limit": rng.choice(["one", "two", "all"]), "ops": _gen(rng, kind)})
    return out


def init_shard(tier, seed):
    k = kl.new()
    r = kl.ev(k, '.py("klongpy.db")')
    if r[0] != "ok":
        raise RuntimeError("cannot import klongpy.db: %r" % (r,))
    return {"k": k, "dir": env.mkscratch("c16")}


def finish_shard(ctx):
    shutil.rmtree(ctx["dir"], ignore_errors=True)
    return {}


# ---------------------------------------------------------------------------- invariant monitor

def check_invariants(cache, real_size):
    """Under the cache's own lock, at a quiescent point. Returns list of (name, text)."""
    bad = []
    with cache.file_futures_lock:
        infos = dict(cache.file_futures)
        heap = list(cache.file_access_times)
        usage = cache.current_memory_usage
        limit = cache.max_memory
    if any(not info[-1].done() for info in infos.values()):
        return None            # not quiescent: not judged
    claims = sum(int(info[1]) for info in infos.values())
    held = 0
    for name, info in infos.items():
        try:
            held += int(real_size(info[-1].result()))
        except Exception as e:
            bad.append(("entry-unreadable", "cached entry %s: %r" % (name, e)))
    if int(usage) != claims:
        bad.append(("accounting!=claims", "current_memory_usage=%s but the recorded claims of the %d held entries sum to %s" % (usage, len(infos), claims)))
    if int(usage) != held:
        bad.append(("accounting!=held", "current_memory_usage=%s but the held entries really occupy %s" % (usage, held)))
    if usage < 0:
        bad.append(("accounting<0", "current_memory_usage=%s" % usage))
    if usage > limit:
        bad.append(("accounting>limit", "current_memory_usage=%s exceeds max_memory=%s" % (usage, limit)))
    if held > limit:
        bad.append(("held>limit", "held entries occupy %s, max_memory=%s" % (held, limit)))
    for t, name in heap:
        if name not in infos:
            bad.append(("heap-names-uncached-entry", "access-time heap names %s which is not cached" % name))
            break
    names = [n for _, n in heap]
    if len(names) != len(set(names)):
        bad.append(("heap-duplicate", "access-time heap holds a name twice"))
    return bad


# ---------------------------------------------------------------------------- key-value store

def _run_kv(ctx, case, res):
    from klongpy.db.sys_fn_kvs import KeyValueStorage
    from klongpy.db.helpers import serialize_obj, deserialize_obj
    k = ctx["k"]
    root = os.path.join(ctx["dir"], "kv")
    shutil.rmtree(root, ignore_errors=True)
    os.makedirs(root)
    cnt = res["counters"]
    sizes = sorted(len(serialize_obj(kl.topy(v, k))) for v in VALUES)
    big = int(sizes[-1] * 1.5) + 64
    limit = {"one": big, "two": 2 * big, "all": 10 ** 7}[case["limit"]]
    model = {}
    hist = []

    def open_store():
        st = KeyValueStorage(root, max_memory=limit)
        k["s"] = st
        return st
    st = open_store()
    after_set = False
    for i, op in enumerate(case["ops"]):
        viol = None
        if op[0] == "set":
            v = VALUES[op[2]]
            k["v"] = kl.topy(v, k)
            txt = 's,"%s",v' % op[1] if v[0] not in ("L",) else None
            # d,k,v joins "key",v first: for list values that would splice the list, so the pair is built explicitly
            hist.append('s,[;"%s";v]  # v=%s' % (op[1], brief(v, 40)))
            k["kk"] = op[1]
            r = kl.ev(k, "s,[;kk;v]")
            if r[0] != "ok":
                viol = ("set|raises:" + r[1], "set of %s raised %s %s" % (op[1], r[1], r[2]))
            model[op[1]] = v
            after_set = True
            cnt["sets"] = cnt.get("sets", 0) + 1
        elif op[0] == "get":
            hist.append('s?"%s"' % op[1])
            r = kl.ev(k, 's?"%s"' % op[1])
            want = model.get(op[1], ["U"])
            cnt["gets_compared"] = cnt.get("gets_compared", 0) + 1
            cnt["get_" + ("hit" if op[1] in model else "never-set")] = cnt.get("get_" + ("hit" if op[1] in model else "never-set"), 0) + 1
            if after_set:
                res["nontrivial"] = True
            if r[0] != "ok":
                viol = ("get-%s|raises:%s" % ("hit" if op[1] in model else "never-set", r[1]), "get of %s raised %s %s, model says %s" % (op[1], r[1], r[2], brief(want)))
            else:
                d = same(canon(r[1]), want, "exact")
                if d:
                    viol = ("get-%s|%s" % ("hit" if op[1] in model else "never-set", d), "get of %s returned %s, model says %s" % (op[1], brief(canon(r[1])), brief(want)))
        elif op[0] == "reopen":
            hist.append("s::.kvs(path)  # a new store object on the same directory")
            st = open_store()
            cnt["reopens"] = cnt.get("reopens", 0) + 1
        elif op[0] == "unload":
            hist.append("unload %s" % op[1])
            st.cache.unload_file(op[1])
        elif op[0] == "oversize":
            hist.append("set %s to a value larger than the limit" % op[1])
            k["v"] = "y" * (limit + 10) if limit < 10 ** 6 else "y" * 10
            k["kk"] = op[1]
            r = kl.ev(k, "s,[;kk;v]")
            if limit < 10 ** 6:
                if r[0] == "ok":
                    viol = ("oversize|accepted", "a value larger than max_memory was accepted")
                # refused: the previous value must still be there
            else:
                model[op[1]] = S("y" * 10)
        if viol is None:
            before = st.cache.current_memory_usage
            inv = check_invariants(st.cache, len)
            if inv is not None:
                cnt["invariant_checks"] = cnt.get("invariant_checks", 0) + 1
                if inv:
                    viol = ("invariant|" + inv[0][0], inv[0][1])
            held = len(st.cache.file_futures)
            if op[0] == "set" and held < len([m for m in model]) and case["limit"] != "all":
                cnt["evictions_observed"] = cnt.get("evictions_observed", 0) + 1
        if viol is None and op[0] in ("set", "reopen", "oversize") and (i % 3 == 0 or i == len(case["ops"]) - 1):
            # directory walk: every key file deserialises to the model's value, nothing else exists
            for key, want in model.items():
                p = os.path.join(root, key)
                try:
                    got = canon(deserialize_obj(open(p, "rb").read()))
                except Exception as e:
                    viol = ("disk|unreadable", "file of key %s: %r" % (key, e))
                    break
                if same(got, want, "exact"):
                    viol = ("disk|value", "file of key %s holds %s, model says %s" % (key, brief(got), brief(want)))
                    break
            cnt["directory_walks"] = cnt.get("directory_walks", 0) + 1
        if viol:
            res["violations"].append({"sig": "kv|limit:%s|%s" % (case["limit"], viol[0]), "what": "op #%d %s: %s" % (i, hist[-1], viol[1]),
                                      "detail": {"history": hist, "limit": limit}})
            break
    res["show"] = {"store": "kv", "limit": case["limit"], "history": hist}


# ---------------------------------------------------------------------------- table store

def _run_table(ctx, case, res):
    import pandas as pd
    from klongpy.db.sys_fn_kvs import TableStorage
    from klongpy.db.sys_fn_db import Table
    from klongpy.db.helpers import df_memory_usage
    from klongpy.types import KGUndefined
    root = os.path.join(ctx["dir"], "tbl")
    shutil.rmtree(root, ignore_errors=True)
    os.makedirs(root)
    cnt = res["counters"]
    rng = random.Random(repr(case["ops"]))

    def mkdf(seedv):
        r2 = random.Random(seedv)
        idx = sorted(r2.sample(range(12), r2.randint(1, 5)))
        return pd.DataFrame({"v": [seedv % 1000 + i for i in idx], "w": [float(i) / 2 for i in idx]}, index=idx)
    probe = mkdf(1)
    # the claim is the pickled size while writing and the DataFrame's memory usage afterwards: the limit must admit both
    from klongpy.db.helpers import serialize_df
    full = pd.DataFrame({"v": list(range(12)), "w": [0.5] * 12}, index=list(range(12)))
    one = max(int(df_memory_usage(full)), len(serialize_df(full))) + 64
    limit = {"one": one, "two": 2 * one, "all": 10 ** 8}[case["limit"]]
    model = {}          # key -> {index: (v, w)}
    hist = []
    st = TableStorage(root, max_memory=limit)
    after_set = False
    for i, op in enumerate(case["ops"]):
        viol = None
        if op[0] == "set":
            df = mkdf(op[2])
            hist.append("set %s rows %s" % (op[1], list(df.index)))
            try:
                st.set(op[1], Table(df))
            except Exception as e:
                viol = ("set|raises:" + type(e).__name__, "set raised %r" % (e,))
            m = model.setdefault(op[1], {})
            for ix, row in df.iterrows():
                if ix not in m:                      # existing rows win on equal index
                    m[ix] = (int(row["v"]), float(row["w"]))
            after_set = True
            cnt["sets"] = cnt.get("sets", 0) + 1
        elif op[0] == "get":
            hist.append("get %s" % op[1])
            cnt["gets_compared"] = cnt.get("gets_compared", 0) + 1
            if after_set:
                res["nontrivial"] = True
            try:
                got = st.get(op[1])
            except Exception as e:
                got = e
            if isinstance(got, Exception):
                viol = ("get-%s|raises:%s" % ("hit" if op[1] in model else "never-set", type(got).__name__), "get raised %r" % (got,))
            elif op[1] not in model:
                if not isinstance(got, KGUndefined):
                    viol = ("get-never-set|value", "get of a never-set key returned %r" % (got,))
            else:
                try:
                    gdf = got.get_dataframe()
                    rows = {int(ix): (int(r["v"]), float(r["w"])) for ix, r in gdf.iterrows()}
                    order = [int(x) for x in gdf.index]
                except Exception as e:
                    rows, order = "unreadable: %r" % (e,), []
                if rows != model[op[1]]:
                    viol = ("get-hit|rows", "get returned rows %s, model (existing rows win) says %s" % (rows, model[op[1]]))
                elif order != sorted(order):
                    viol = ("get-hit|order", "rows not ordered by index: %s" % order)
        elif op[0] == "reopen":
            hist.append("reopen")
            st = TableStorage(root, max_memory=limit)
            cnt["reopens"] = cnt.get("reopens", 0) + 1
        elif op[0] == "unload":
            hist.append("unload %s" % op[1])
            st.cache.unload_file(op[1])
        elif op[0] == "oversize":
            continue
        if viol is None:
            inv = check_invariants(st.cache, df_memory_usage)
            if inv is not None:
                cnt["invariant_checks"] = cnt.get("invariant_checks", 0) + 1
                if inv:
                    viol = ("invariant|" + inv[0][0], inv[0][1])
            if op[0] == "set" and len(st.cache.file_futures) < len(model) and case["limit"] != "all":
                cnt["evictions_observed"] = cnt.get("evictions_observed", 0) + 1
        if viol:
            res["violations"].append({"sig": "table|limit:%s|%s" % (case["limit"], viol[0]), "what": "op #%d %s: %s" % (i, hist[-1], viol[1]),
                                      "detail": {"history": hist, "limit": limit}})
            break
    res["show"] = {"store": "table", "limit": case["limit"], "history": hist}


def run_case(ctx, case):
    res = {"nontrivial": False, "counters": {}, "violations": [], "key": repr(case)}
    (_run_kv if case["kind"] == "kv" else _run_table)(ctx, case, res)
    return res
