"""C02 - adverbs equal their definitional expansion for every verb and operand.

Reference-model monitor: every adverb expression is evaluated as source text by the real
interpreter and compared with the adverb's definition (vf/ref/adverbs.py) written out as plain
applications of the same verb, where each single application is performed by the real interpreter
too (so only the adverb's wiring and its shortcuts are judged, never the verb).
"""
import itertools
import random

from vf.core import kl
from vf.core.canon import canon, same, brief, shape_class, I, R, C, S, L, D, Y
from vf.core.render import render, NotRenderable
from vf.ref.adverbs import Model, Unspec

PROPERTY = "C02"
LEVEL = "exploration"
RULE = ("case = (adverb, verb, operand(s)): 16 adverb forms x verbs {arithmetic / comparison / min / max / join operators, the equivalent lambdas, argument-swapped and "
        "non-associative lambdas, a named function, a projection, a Python callable; monadic operators and lambdas for the monadic adverbs} x operands {atoms, \"\", strings, "
        "vectors of length 0..5, matrices, nested and ragged lists, dictionaries}, plus two-adverb chains; the value of the adverb expression is compared (Klong match) with "
        "the definitional expansion. Distinct = distinct (expression text, operands); non-trivial = the expansion is defined (no verb application failed) and was compared.")
ASSUMPTIONS = ["a single application of the verb is performed by the real interpreter (p VERB q / VERB(p;q)) - verb defects belong to C01",
               "operand shapes the manual leaves undefined (each-2 with one atom and one list, n=0 scans, dictionaries outside each) are not judged",
               "iteration adverbs are run only with verbs / predicates that terminate within 200 steps in the model"]
MIN_COUNTS = {"quick": {"nontrivial": 3500, "verb_applications_by_model": 7000, "rebind_evaluations": 80}, "thorough": {"nontrivial": 6500, "verb_applications_by_model": 13000, "rebind_evaluations": 600}}
CASE_TIMEOUT = 300
MEM_LIMIT_GB = 6

DY_OPS = ["+", "-", "*", "%", "&", "|", ",", "=", "<", ">"]
DY_VERBS = [("op", o) for o in DY_OPS] + [("lam", "{x%sy}" % o) for o in DY_OPS] + \
           [("lam", "{y-x}"), ("lam", "{y%x}"), ("lam", "{y,x}"), ("lam", "{(2*x)+y}"), ("lam", "{x,,y}"), ("lam", "{(#x),#y}"), ("lam", "{y}"), ("lam", "{x}"), ("name", "dsub"), ("name", "hproj2"), ("py", "pf2")]
MO_VERBS = [("op", "-"), ("op", "#"), ("op", "|"), ("op", ","), ("op", "*"), ("op", "_"), ("op", "~"), ("lam", "{x*2}"), ("lam", "{x,x}"), ("lam", "{-x}"), ("lam", "{#x}"),
            ("name", "hproj1"), ("py", "pf1")]
CONV_VERBS = [("lam", "{_x%2}"), ("lam", "{x&5}"), ("op", "_"), ("lam", "{,/x}"), ("lam", "{x|3}"), ("op", "|")]
ITER_VERBS = [("lam", "{x*2}"), ("lam", "{1,x}"), ("lam", "{x,x}"), ("op", "-"), ("op", ","), ("name", "hproj1"), ("py", "pf1")]
WHILE = [("{x<20}", ("lam", "{x*2}"), [I(1), I(3), I(50), R(0.5)]), ("{x<5}", ("lam", "{x+1}"), [I(0), I(5), I(-2)]), ("{(#x)<4}", ("lam", "{x,0}"), [L([]), L([I(1)]), L([I(1), I(2), I(3), I(4)])]),
         ("{x>1}", ("lam", "{x%2}"), [R(8.0), I(1)])]

ATOMS = [I(0), I(3), I(-2), R(2.5), C("a"), S("")]
VECS = [L([]), L([I(4)]), L([I(1), I(2)]), L([I(3), I(1), I(2)]), L([I(5), I(-7), I(2), I(2)]), L([I(1), I(2), I(3), I(4), I(5)]), L([R(1.5), R(-2.0)]), L([R(0.5), R(2.0), R(3.75)])]
STRS = [S("a"), S("abc"), S("hello")]
MATS = [L([L([I(1), I(2)]), L([I(3), I(4)])]), L([L([I(1), I(2), I(3)]), L([I(4), I(5), I(6)])]), L([L([I(1)]), L([I(2)]), L([I(3)])])]
NEST = [L([L([I(1)]), L([I(2), I(3)])]), L([I(1), L([I(2), L([I(3)])])]), L([S("ab"), S("cd")]), L([I(1), S("a")]), L([L([]), L([I(1)])])]
DICTS = [D([(I(1), I(2))]), D([(S("a"), I(1)), (S("b"), I(2))]), D([])]
ALL_OPERANDS = ATOMS + VECS + STRS + MATS + NEST


def cases(tier, seed):
    rng = random.Random(2000 + seed)
    out = []
    frac = 0.6 if tier == "quick" else 1.0

    def add(c):
        if frac >= 1.0 or rng.random() < frac:
            out.append(c)
    for v in DY_VERBS:
        for a in ALL_OPERANDS:
            add({"adv": "over", "verb": v, "a": a})
            add({"adv": "scan_over", "verb": v, "a": a})
            add({"adv": "each_pair", "verb": v, "a": a})
            for l in (I(10), R(0.5), L([]), L([I(7), I(8)]), S("z")):
                if rng.random() < 0.5:
                    add({"adv": "over_neutral", "verb": v, "l": l, "a": a})
                    add({"adv": "scan_over_neutral", "verb": v, "l": l, "a": a})
                    add({"adv": "each_left", "verb": v, "l": l, "a": a})
                    add({"adv": "each_right", "verb": v, "l": l, "a": a})
        for a, b in itertools.product(ATOMS[:4] + VECS + STRS[:2] + MATS[:1] + NEST[:2], repeat=2):
            if rng.random() < 0.25:
                add({"adv": "each2", "verb": v, "l": a, "a": b})
    for v in MO_VERBS:
        for a in ALL_OPERANDS + DICTS:
            add({"adv": "each", "verb": v, "a": a})
            if a[0] != "D":
                add({"adv": "each_index", "verb": ("lam", "{x}") if v[0] == "op" else v, "a": a})
    for v in ITER_VERBS:
        for n in (0, 1, 2, 3):
            for a in ATOMS[:4] + VECS[:4] + NEST[:1]:
                add({"adv": "iterate", "verb": v, "n": n, "a": a})
                add({"adv": "scan_iterating", "verb": v, "n": n, "a": a})
    for v in CONV_VERBS:
        for a in [I(40), I(7), R(9.5), I(0), L([I(40), I(3)]), L([I(1), L([I(2), L([I(3)])])]), L([S("a"), L([S("b")]), S("c")]), L([L([I(1), I(2)]), L([I(3)])])]:
            out.append({"adv": "converge", "verb": v, "a": a})
            out.append({"adv": "scan_converging", "verb": v, "a": a})
    for pred, v, starts in WHILE:
        for a in starts:
            out.append({"adv": "while", "verb": v, "pred": pred, "a": a})
            out.append({"adv": "scan_while", "verb": v, "pred": pred, "a": a})
    # two-adverb chains: (f A1) A2 a
    for v in DY_VERBS:
        for a1 in ("over", "scan_over", "each_pair"):
            for a in MATS + NEST + VECS[:3] + [L([L([I(1), I(2)]), L([I(3), I(4)]), L([I(5), I(6)])])]:
                add({"adv": "chain", "a1": a1, "a2": "each", "verb": v, "a": a})
    for v in MO_VERBS:
        for a in MATS + NEST:
            add({"adv": "chain", "a1": "each", "a2": "each", "verb": v, "a": a})
    for a in [L([I(1), L([I(2), L([I(3), L([I(4)]), I(5)]), I(6)]), I(7)]), L([L([I(1)]), L([L([I(2)])])]), L([I(1), I(2)])]:
        out.append({"adv": "chain", "a1": "over", "a2": "converge", "verb": ("op", ","), "a": a})
        out.append({"adv": "chain", "a1": "over", "a2": "scan_converging", "verb": ("op", ","), "a": a})
    # a named verb that is re-bound between two evaluations of the same call site (same text, or the same function body):
    # the adverb must apply the definition current at each evaluation
    d2 = ["{x+y}", "{x*y}", "{y-x}", "{x,y}", "dsub", "pf2", "{x}"]
    d1 = ["{x+1}", "{-x}", "{x,x}", "pf1", "hproj1", "{x*x}"]
    nums = [L([I(3), I(1), I(2)]), L([I(10), I(2), I(3), I(4)]), L([R(1.5), R(2.0)]), L([I(5)]), L([L([I(1), I(2)]), L([I(3), I(4)])])]
    nreb = 5 if tier == "quick" else 40
    for adv in ("over", "scan_over", "each_pair", "over_neutral", "scan_over_neutral", "each_left", "each_right", "each2", "each", "iterate"):
        for _ in range(nreb):
            pool = d1 if adv in ("each", "iterate") else d2
            defs = rng.sample(pool, 2) + ([rng.choice(pool)] if rng.random() < 0.3 else [])
            c = {"adv": adv, "verb": ("lam", "nf"), "a": rng.choice(nums), "rebind": defs, "via": rng.choice(["text", "fn", "fn"])}
            if adv in ("over_neutral", "scan_over_neutral", "each_left", "each_right", "each2"):
                c["l"] = rng.choice([I(10), L([I(7), I(8)]), I(1)]) if adv != "each2" else rng.choice(nums)
            if adv == "iterate":
                c["n"] = rng.choice([1, 2, 3])
            out.append(c)
    for c in out:
        c["verb"] = list(c["verb"])
    return out


ADV_TEXT = {"over": "/", "scan_over": "\\", "each_pair": ":'", "each": "'", "each_index": "@'", "converge": ":~", "scan_converging": "\\~",
            "over_neutral": "/", "scan_over_neutral": "\\", "each_left": ":\\", "each_right": ":/", "each2": "'", "iterate": ":*", "scan_iterating": "\\*",
            "while": ":~", "scan_while": "\\~"}


class VerbError(Exception):
    pass


def init_shard(tier, seed):
    from vf.checks.c05 import Switch
    Switch().install()
    return {}


def _norm(c):
    """A character and a one-character string are not told apart here: whether the elements of a string
    are handed to the verb as characters or as one-character strings is not what the adverb definitions fix."""
    if c[0] == "C":
        return ["S", c[1]]
    if c[0] == "L":
        return ["L", [_norm(x) for x in c[1]]]
    if c[0] == "D":
        return ["D", [[_norm(a), _norm(b)] for a, b in c[1]]]
    return c


def _join_chars(c):
    if c[0] == "L" and c[1] and all(x[0] == "S" and len(x[1]) == 1 for x in c[1]):
        return ["S", "".join(x[1] for x in c[1])]
    return c


def _mkinterp():
    k = kl.new()
    k._vf_c = {"off": True}          # single applications of the verb go through the interpreter, not the expression compiler
    kl.ev(k, "dsub::{x-y}")
    kl.ev(k, "t3::{(x*z)+y}")
    kl.ev(k, "hproj2::t3(;;2)")        # dyad by projection: (x*2)+y
    kl.ev(k, "hproj1::dsub(;1)")       # monad by projection: x-1
    k["pf2"] = lambda x, y: x * 10 + y
    k["pf1"] = lambda x: x + 100
    return k


def _verb_text(v):
    return v[1]


def _applier(k, v, arity, counter):
    kind, s = v

    def ap(*args):
        counter[0] += 1
        names = ["vfp", "vfq"]
        for nme, val in zip(names, args):
            k[nme] = val
        if kind == "op":
            text = ("vfp%svfq" % s) if arity == 2 else ("%svfp" % s)
        else:
            text = "%s(%s)" % (s, ";".join(names[:arity]))
        r = kl.ev(k, text)
        if r[0] != "ok":
            raise VerbError(r[1])
        return r[1]
    return ap


def _operand_text(k, c, name):
    try:
        return render(c)
    except NotRenderable:
        k[name] = kl.topy(c, k)
        return name


def _run_rebind(case):
    """The same call site evaluated after each re-binding of the named verb nf."""
    res = {"nontrivial": False, "counters": {}, "violations": []}
    cnt = res["counters"]
    k = _mkinterp()
    adv, a = case["adv"], case["a"]
    counter = [0]
    M = Model(mklist=lambda items: k._backend.kg_asarray(list(items)),
              equal=lambda x, y: same(_norm(canon(x)), _norm(canon(y)), "match") is None,
              truth=lambda x: not (canon(x) in (["I", 0], ["R", 0.0], ["L", []], ["S", ""])))
    av = kl.topy(a, k)
    at = render(a)
    v = ("lam", "nf")
    dy_left = adv in ("over_neutral", "scan_over_neutral", "each_left", "each_right", "each2")
    if dy_left:
        lv, lt = kl.topy(case["l"], k), render(case["l"])
    if adv == "iterate":
        expr, body, call = "%d nf:*%s" % (case["n"], at), "{%d nf:*x}" % case["n"], "g(%s)" % at
        model = lambda: M.iterate(_applier(k, v, 1, counter), case["n"], av)
    elif adv == "each":
        expr, body, call = "nf'%s" % at, "{nf'x}", "g(%s)" % at
        model = lambda: M.each(_applier(k, v, 1, counter), av)
    elif dy_left:
        expr, body, call = "%s nf%s%s" % (lt, ADV_TEXT[adv], at), "{x nf%sy}" % ADV_TEXT[adv], "g(%s;%s)" % (lt, at)
        model = lambda: getattr(M, adv)(_applier(k, v, 2, counter), lv, av)
    else:
        expr, body, call = "nf%s%s" % (ADV_TEXT[adv], at), "{nf%sx}" % ADV_TEXT[adv], "g(%s)" % at
        model = lambda: getattr(M, adv)(_applier(k, v, 2, counter), av)
    text = expr if case["via"] == "text" else call
    res["key"] = "%s|%s|%s" % (text, case["via"], ">".join(case["rebind"]))
    res["show"] = {"expression": text, "definitions_of_nf": case["rebind"], "via": case["via"], "body": body if case["via"] == "fn" else None}
    kl.ev(k, "nf::%s" % case["rebind"][0])
    if case["via"] == "fn":
        kl.ev(k, "g::%s" % body)
    for step, d in enumerate(case["rebind"]):
        kl.ev(k, "nf::%s" % d)
        try:
            want = model()
        except (Unspec, VerbError, RecursionError):
            cnt["undefined_or_verb_failed"] = 1
            return res
        r = kl.ev(k, text)
        res["nontrivial"] = True
        cnt["rebind_evaluations"] = cnt.get("rebind_evaluations", 0) + 1
        cnt["adv:" + adv] = 1
        sig = "rebind|%s|%s|eval#%d" % (adv, case["via"], min(step + 1, 2))
        if r[0] != "ok":
            res["violations"].append({"sig": sig + "|raises:" + r[1], "what": "%s with nf::%s raised %s" % (text, d, r[1]), "detail": res["show"]})
            return res
        dd = same(_norm(canon(r[1])), _norm(canon(want)), "match")
        if dd:
            res["violations"].append({"sig": sig + "|" + dd, "what": "%s evaluated after nf::%s (definitions so far %s) returned %s; the expansion with the current nf gives %s" % (
                text, d, case["rebind"][: step + 1], brief(_norm(canon(r[1]))), brief(_norm(canon(want)))), "detail": res["show"]})
            return res
    return res


def run_case(ctx, case):
    if case.get("rebind"):
        return _run_rebind(case)
    res = {"nontrivial": False, "counters": {}, "violations": []}
    cnt = res["counters"]
    k = _mkinterp()
    adv, v = case["adv"], tuple(case["verb"])
    a = case["a"]
    counter = [0]
    M = Model(mklist=lambda items: k._backend.kg_asarray(list(items)),
              equal=lambda x, y: same(_norm(canon(x)), _norm(canon(y)), "match") is None,
              truth=lambda x: not (canon(x) in (["I", 0], ["R", 0.0], ["L", []], ["S", ""])))
    av = kl.topy(a, k)
    if same(canon(av), a, "exact"):
        cnt["operand_constructor_skipped"] = 1
        return res
    at = _operand_text(k, a, "vfa")
    vt = _verb_text(v)
    try:
        if adv in ("over", "scan_over", "each_pair"):
            text = "%s%s%s" % (vt, ADV_TEXT[adv], at)
            model = lambda: getattr(M, adv)(_applier(k, v, 2, counter), av)
        elif adv in ("each", "each_index", "converge", "scan_converging"):
            text = "%s%s%s" % (vt, ADV_TEXT[adv], at)
            model = lambda: getattr(M, adv)(_applier(k, v, 1, counter), av)
        elif adv in ("over_neutral", "scan_over_neutral", "each_left", "each_right", "each2"):
            lv = kl.topy(case["l"], k)
            lt = _operand_text(k, case["l"], "vfl")
            text = "%s %s%s%s" % (lt, vt, ADV_TEXT[adv], at)
            model = lambda: getattr(M, adv)(_applier(k, v, 2, counter), lv, av)
        elif adv in ("iterate", "scan_iterating"):
            text = "%d %s%s%s" % (case["n"], vt, ADV_TEXT[adv], at)
            model = lambda: getattr(M, adv)(_applier(k, v, 1, counter), case["n"], av)
        elif adv in ("while", "scan_while"):
            text = "%s%s%s%s" % (case["pred"], vt, ADV_TEXT[adv], at)
            pred = _applier(k, ("lam", case["pred"]), 1, counter)
            model = lambda: (M.while_ if adv == "while" else M.scan_while)(_applier(k, v, 1, counter), pred, av)
        elif adv == "chain":
            a1, a2 = case["a1"], case["a2"]
            text = "%s%s%s%s" % (vt, ADV_TEXT[a1], ADV_TEXT[a2], at)
            ar1 = 1 if a1 in ("each",) else 2
            inner = lambda x: _unwrap(getattr(M, a1)(_applier(k, v, ar1, counter), x))
            model = lambda: getattr(M, a2)(inner, av)
        else:
            raise ValueError(adv)
    except NotRenderable:
        return res
    res["key"] = text
    res["show"] = {"expression": text}
    if _out_of_scope(adv, v, a, case.get("l")):
        cnt["outside_the_verbs_domain"] = 1
        return res
    try:
        want = model()
    except (Unspec, VerbError):
        cnt["undefined_or_verb_failed"] = 1
        return res
    except RecursionError:
        return res
    cnt["verb_applications_by_model"] = counter[0]
    r = kl.ev(_mkinterp_like(k), text) if False else kl.ev(k, text)
    res["nontrivial"] = True
    cnt["adv:" + adv] = 1
    vfam = v[0] if v[0] != "op" else "operator"
    if v[0] == "lam" and "#" in v[1]:
        vfam = "lam:size"          # a verb that tells a character (size = its code) from a one-character string (size 1)
    sigbase = "%s|%s|%s" % (adv if adv != "chain" else "chain:%s+%s" % (case["a1"], case["a2"]), vfam + ((":" + v[1]) if v[0] == "op" else ""), shape_class(a))
    multiset = isinstance(want, tuple) and want[0] == "multiset"
    if r[0] != "ok":
        res["violations"].append({"sig": sigbase + "|raises:" + r[1], "what": "%s raised %s (%s); expansion gives %s" % (text, r[1], r[2][:80], _b(want)), "detail": res["show"]})
        return res
    got = _norm(canon(r[1]))
    if multiset:
        wl = sorted(repr(_norm(canon(x))) for x in want[1])
        gl = sorted(repr(x) for x in got[1]) if got[0] == "L" else None
        if gl is None or len(gl) != len(wl) or any(same(eval(g), eval(w), "match") for g, w in zip(gl, wl)):
            res["violations"].append({"sig": sigbase + "|dict-visit", "what": "%s returned %s; expansion visits %s" % (text, brief(got), wl), "detail": res["show"]})
        return res
    wc = _norm(canon(want))
    if adv == "each2" and (a[0] == "S" or case["l"][0] == "S"):
        # whether the pairwise results of a string and a list are joined into a string again is not specified
        got, wc = _join_chars(got), _join_chars(wc)
    d = same(got, wc, "match")
    if d:
        res["show"]["got"], res["show"]["expansion"] = brief(got), brief(wc)
        res["violations"].append({"sig": sigbase + "|" + d, "what": "%s returned %s; the expansion written out gives %s" % (text, brief(got), brief(wc)), "detail": res["show"]})
    return res


def _has_text(c):
    if c[0] in ("S", "C"):
        return c[0] == "C" or len(c[1]) > 0
    if c[0] == "L":
        return any(_has_text(x) for x in c[1])
    return False


def _sibling_lengths_differ(c):
    if c[0] != "L":
        return False
    lens = {len(x[1]) for x in c[1] if x[0] == "L"}
    return len(lens) > 1 or any(_sibling_lengths_differ(x) for x in c[1])


def _out_of_scope(adv, v, a, l):
    """Operand / verb combinations on which the reference defines no result for the single applications,
    or whose result depends on whether a string hands out characters or one-character strings."""
    text = _has_text(a) or (l is not None and _has_text(l))
    if text and v[0] == "op" and v[1] in "+-*%&|<>=" and adv not in ("each", "each_index"):
        return True           # arithmetic / ordering of characters and strings is not defined (klongpy happens to concatenate)
    if text and v[0] in ("lam", "name", "py") and adv not in ("each", "each_index"):
        if any(ch in v[1] for ch in "+-*%&|<>=") or v[1] in ("dsub", "hproj2", "pf2", "{x,,y}"):
            return True
    if v[0] == "op" and v[1] in "+-*%&|<>=" and adv in ("over", "scan_over", "each_pair", "over_neutral", "scan_over_neutral") and _sibling_lengths_differ(a):
        return True           # atomic verbs are defined for an atom and a list or two lists of equal length only
    if adv == "each2" and l is not None and a[0] == "S" and l[0] == "S":
        return True           # whether the pairwise results of two strings are joined again is not specified
    return False


def _unwrap(x):
    if isinstance(x, tuple) and x and x[0] == "multiset":
        raise Unspec()
    return x


def _mkinterp_like(k):
    return k


def _b(want):
    try:
        return brief(canon(want[1] if isinstance(want, tuple) else want))
    except Exception:
        return "?"
