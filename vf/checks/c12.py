"""C12 - parsing always terminates and is repeatable.

Every input is parsed by the real KlongInterpreter.prog under a deterministic step budget
(sys.monitoring: function entries + loop back-edges inside klongpy/parser.py and
klongpy/interpreter.py), B(n) = 100*(n+4)^2.  Two parses are compared structurally, the variable
snapshot is compared before/after parsing, and the re-parsed program is evaluated (also under a
budget) in a twin and compared with the evaluation of the first parse.
"""
import glob
import itertools
import os
import random
import re

from vf.core import kl, env
from vf.core.canon import canon, same, brief

PROPERTY = "C12"
LEVEL = "exploration"
RULE = ("case = batch of input strings: all strings of <=2 tokens (quick: + seeded 25% of 3-token strings; thorough: all 3-token strings) over a "
        "49-token alphabet, single (thorough: + double) token edits of the repository's .kg test corpus lines, generated long/deeply nested strings "
        "and all their bracket-boundary truncations. Non-trivial = parse finished or raised within the budget and was re-parsed and compared; "
        "strings are de-duplicated by the generator so every counted case is distinct.")
ASSUMPTIONS = ["work is measured as monitored events (PY_START + backward JUMP) in parser.py and interpreter.py; B(n)=100*(n+4)^2 admits an honestly quadratic parser",
               "evaluation of the parsed programs is itself budgeted (2e5 events); programs exceeding it are not compared by evaluation"]
MIN_COUNTS = {"quick": {"nontrivial": 20000, "reparsed_compared": 20000, "evaluated_compared": 3000},
              "thorough": {"nontrivial": 150000, "reparsed_compared": 150000, "evaluated_compared": 20000}}
CASE_TIMEOUT = 150
MEM_LIMIT_GB = 6
MIN_SHARD = 4
EXHAUSTIVE = {"quick": False, "thorough": False}

TOKENS = ["1", "-1", "2.5", "1e3", "0cx", "0c", '"a"', '""', '"', "a", "x", ".f", ":s", "+", "-", "*", "%", "!", "&", "|", "<", ">", "=", "~", ",",
          "^", "#", "_", "?", "@", "$", "::", ":+", ":=", ":_", ":#", "'", "/", "\\", "\\~", ":~", ":*", ":\\", ":/", ":'",
          "(", ")", "[", "]", "{", "}", ":[", ":|", ":{", ";", ':"', "\n", " ", ".comment(", ".module("]
EDIT_TOKENS = ['"', "(", ")", "[", "{", "}", ":[", ":{", ";", "0c", ':"', "\\~", ".comment("]
BATCH = 250


def budget(n):
    return 100 * (n + 4) ** 2


_LEX = re.compile(r'"(?:[^"]|"")*"|0c.|:[\[\|{"]|::|:[^\s\w]|\\[~*]|[A-Za-z.][A-Za-z0-9.]*|\d+\.?\d*(?:e[+-]?\d+)?|\s|.', re.S)


def _lex(line):
    return _LEX.findall(line)


def _corpus():
    files = sorted(glob.glob(os.path.join(env.REPO, "tests", "kgtests", "**", "*.kg"), recursive=True))
    lines = []
    for f in files:
        try:
            ls = open(f, encoding="utf8").read().split("\n")
        except Exception:
            continue
        if len(ls) > 2000:
            ls = ls[:150]
        for l in ls:
            l = l.rstrip()
            if l and len(l) <= 300:
                lines.append(l)
    seen, out = set(), []
    for l in lines:
        if l not in seen:
            seen.add(l)
            out.append(l)
    return out


def _edits(toks, rng, double):
    out = []
    n = len(toks)
    for i in range(n):
        out.append(toks[:i] + toks[i + 1:])                    # delete
        out.append(toks[:i])                                      # truncate
        if i + 1 < n:
            out.append(toks[:i] + [toks[i + 1], toks[i]] + toks[i + 2:])   # swap
    for i in range(n + 1):
        for t in EDIT_TOKENS:
            out.append(toks[:i] + [t] + toks[i:])                 # insert
    if double:
        extra = []
        for e in rng.sample(out, min(len(out), 12)):
            e2 = _edits1(e, rng)
            extra.append(e2)
        out += extra
    return out


def _edits1(toks, rng):
    n = len(toks)
    if n == 0:
        return [rng.choice(EDIT_TOKENS)]
    r = rng.random()
    i = rng.randrange(n)
    if r < 0.3:
        return toks[:i] + toks[i + 1:]
    if r < 0.6:
        return toks[:i] + [rng.choice(EDIT_TOKENS)] + toks[i:]
    if r < 0.8 and i + 1 < n:
        return toks[:i] + [toks[i + 1], toks[i]] + toks[i + 2:]
    return toks[:i]


def _long_strings():
    out = []
    pairs = [("(", ")"), ("[", "]"), ("{", "}"), (":[1;", ";0]"), (":{[1 ", "]}"), ("[;", "]"), ("f(", ")"), ("{x}(", ")"), ("-(", ")")]
    for o, c in pairs:
        for d in (3, 6, 10, 14, 18, 24, 40, 120):
            full = o * d + "1" + c * d
            out.append(full)
            # truncations at every bracket boundary (unclosed nestings)
            for k in range(1, d + 1, max(1, d // 12)):
                out.append(o * k + "1")
                out.append(o * d + "1" + c * (d - k))
                out.append(o * k)
    out.append('"' + "ab" * 900 + '"')
    out.append('"' + 'a""' * 500 + '"')
    out.append('"' + "x" * 1500)                                   # unterminated string
    out.append("[" + " ".join(str(i) for i in range(500)) + "]")
    out.append("[" + " ".join('"s%d"' % i for i in range(200)) + "]")
    out.append(":{" + " ".join("[%d %d]" % (i, i) for i in range(200)) + "}")
    out.append("+".join(str(i) for i in range(600)))
    out.append("+".join("a" for i in range(600)))
    out.append("-" * 800 + "1")
    out.append("+/" * 1 + "'" * 300 + "[1 2]")
    out.append(";".join("a::%d" % i for i in range(300)))
    out.append("\n".join("f::{x+%d}" % i for i in range(300)))
    out.append(':"' + "c" * 1500)
    out.append(':"c"' * 300 + "1")
    out.append(".comment(\"end\")\n" + "junk *%(\n" * 200 + "end\n1")
    out.append(".comment(\"e\")" + "e" * 1500)
    out.append(":[" + "1;2:|" * 250 + "1;2;3]")
    out.append("{" * 150 + "x" + "}" * 150 + "(1)")
    out.append("f(" + ";".join("1" for _ in range(3)) + ")" * 1 + "(2)" * 300)
    out.append("0c" * 700)
    out.append(":" * 1500)
    out.append("a" * 1900)
    out.append("1e" * 600)
    return out


def _fixed():
    return ['.comment("")', '.comment("")1', '.comment("x")', '.comment("x")x', '.comment("x")\nfoo\nx\n1', '"', '""', '0c', ':"', ":[", ":{", ":|",
            "{", "}", "(", ")", "[", "]", "f(", "f(;", "f(;)", "f(1;)(2)", "{x}(", "{x}(;", ":[1;2", ":[1;2;", ":[1;2:|", "[;", "[;1", "[;1;", "a::", "::a",
            ".module(", ".module(:m)", ".module(0)", "1e", "1e+", "1.", "-", "--", "---", "\\~", "\\", "@'", "+/'", ":{[1", ":{[1 2]", ":{1}", "[[", "[[]", '["[" 1]',
            '[0c[ 1]', "0c[", '"["']


def _all_strings(tier, seed):
    rng = random.Random(12000 + seed)
    out = list(_fixed())
    T = TOKENS
    out += list(T)
    out += ["".join(p) for p in itertools.product(T, repeat=2)]
    if tier == "quick":
        for p in itertools.product(T, repeat=3):
            if rng.random() < 0.25:
                out.append("".join(p))
    else:
        out += ["".join(p) for p in itertools.product(T, repeat=3)]
    corpus = _corpus()
    if tier == "quick":
        corpus = rng.sample(corpus, min(len(corpus), 250))
    for line in corpus:
        toks = _lex(line)
        out.append(line)
        eds = _edits(toks, rng, double=(tier == "thorough"))
        if tier == "quick" and len(eds) > 60:
            eds = rng.sample(eds, 60)
        elif len(eds) > 500:
            eds = rng.sample(eds, 500)
        out += ["".join(e) for e in eds]
    # calls the parser itself acts on (.module, .comment) with an expression where a literal is usual: parsing must still
    # not evaluate anything (no variable changes, same parse twice, bounded work)
    inner_alphabet = ["1", "a", "u", "::", "+", ":s", "{", "}", "(", ")", ";", '"m"', "f(", ":~", "x", "0"]
    inners = [""] + ["".join(p) for n in (1, 2, 3) for p in itertools.product(inner_alphabet, repeat=n)]
    inners += ["u::7", "n::n+1", "a::a,1", "{1}{x+1}:~0", "f(1)", "f::{x}", '"m",a', "a::{x}(2)", "{a::5}()", "{x}'[1 2]"]
    if tier == "quick":
        inners = [x for x in inners if rng.random() < 0.5 or len(x) <= 4]
    for head in (".module(", ".comment("):
        for inner in inners:
            out.append(head + inner + ")")
            if rng.random() < 0.2:
                out.append("a::3;" + head + inner + ");f::{x+1};a")
    out += _long_strings()
    seen, res = set(), []
    for s in out:
        if s not in seen and len(s) <= 2000:
            seen.add(s)
            res.append(s)
    return res


def cases(tier, seed):
    ss = _all_strings(tier, seed)
    # long strings last and in small batches
    short = [s for s in ss if len(s) <= 400]
    long_ = [s for s in ss if len(s) > 400]
    out = [{"strings": short[i:i + BATCH]} for i in range(0, len(short), BATCH)]
    out += [{"strings": long_[i:i + 4]} for i in range(0, len(long_), 4)]
    return out


def init_shard(tier, seed):
    import klongpy.parser as P
    import klongpy.interpreter as KI
    from vf.mon.stepbudget import StepBudget
    import sys as _sys
    import klongpy.adverbs, klongpy.monads, klongpy.dyads, klongpy.sys_fn, klongpy.backends.base, klongpy.backends.numpy_backend, klongpy.types, klongpy.writer, klongpy.autograd
    extra = [m for n, m in list(_sys.modules.items()) if n.startswith("klongpy.") and m is not None and n not in ("klongpy.parser", "klongpy.interpreter") and "torch" not in n]
    sb = StepBudget([P, KI], extra)
    sb.install()
    return {"sb": sb}


def struct(x, depth=0):
    """Structural fingerprint of a parsed program."""
    from klongpy.types import KGFn, KGCall, KGOp, KGAdverb, KGCond, KGLambda, KGSym, KGChar
    import numpy as np
    if depth > 400:
        return "deep"
    if isinstance(x, KGFn):
        return (type(x).__name__, struct(x.a, depth + 1), struct(x.args, depth + 1), x.arity)
    if isinstance(x, KGOp):
        return ("op", x.a, x.arity)
    if isinstance(x, KGAdverb):
        return ("adv", struct(x.a, depth + 1), x.arity)
    if isinstance(x, KGLambda):
        return ("lambda", id(x.fn))
    if isinstance(x, dict):
        return ("dict", tuple((struct(k, depth + 1), struct(v, depth + 1)) for k, v in x.items()))
    if isinstance(x, (list, tuple)):
        return (type(x).__name__, tuple(struct(e, depth + 1) for e in x))
    if isinstance(x, np.ndarray):
        if x.dtype == object:
            return ("nd", tuple(struct(e, depth + 1) for e in x))
        return ("nd", repr(canon(x)))
    if isinstance(x, KGSym):
        return ("sym", str(x))
    if isinstance(x, KGChar):
        return ("chr", str(x))
    if x is None or isinstance(x, (int, float, str)):
        return (type(x).__name__, repr(x))
    return ("other", type(x).__name__)


EVAL_BUDGET = 200000
_ADDR = re.compile(r"0x[0-9a-fA-F]+")


def _noaddr(c):
    """Object addresses (printed by garbage programs such as $:+) are not part of a value."""
    import json
    return json.loads(_ADDR.sub("0x", json.dumps(c)))


def _eval_prog(sb, k, prog):
    def run():
        r = None
        for p in prog:
            r = k.call(p)
        return r
    return sb.run(EVAL_BUDGET, run, wide=True)


def _has_io(s):
    return any(t in s for t in (".sys", ".rl", ".r(", ".fc", ".tc", ".ic", ".oc", ".ac", ".mi", ".x(", ".df", ".l(", ".py", ".cli", ".srv", ".timer", ".web", ".ws", ".rn", ".pc", ".E(", ".p(", ".d(", ".w(", ".bkf", ".rs("))


def on_case_killed(rc, stderr, note):
    """A batch that never came back.  When the watchdog's stack dump shows the process inside the parser (and no monitored event
    stopped it: the time went into native code, e.g. a regular expression), the string named in the note was being parsed
    without end - which is what the property forbids.  Anything else (a crash elsewhere, memory) stays inconclusive."""
    if not stderr or "Timeout" not in stderr or note is None:
        return None
    frames = [ln for ln in stderr.splitlines() if ln.strip().startswith("File ")]
    if not frames:
        return None
    top = frames[0]
    inner = [ln for ln in frames[:6] if "/klongpy/parser.py" in ln or "/klongpy/interpreter.py" in ln]
    if not inner or "/vf/" in top or "_eval_prog" in stderr.split("run_case")[0]:
        return None
    fn = inner[0].split(" in ")[-1].strip()
    return {"sig": "no-return|%s" % fn, "what": "parsing %r (%d chars) did not return within the case time limit of %d s; the stack was inside %s and no step budget fired (time spent in native code)" % (
        note[:80], len(note), CASE_TIMEOUT, fn), "detail": {"text": note, "stack": frames[:8]}}


def run_case(ctx, case):
    sb = ctx["sb"]
    res = {"counters": {}, "violations": [], "evaluations": len(case["strings"])}
    cnt = res["counters"]
    distinct = 0
    worst = 0.0
    for s in case["strings"]:
        n = len(s)
        B = budget(n)
        if "_note" in ctx:
            ctx["_note"](s)
        k1 = kl.new()
        pre = kl.user_vars(k1)
        st, v, ev = sb.run(B, k1.prog, s)
        cnt["events"] = cnt.get("events", 0) + ev
        ratio = ev / float((n + 4) ** 2)
        if ratio > worst:
            worst = ratio
        if st == "budget":
            res["violations"].append({"sig": "budget|%s" % v, "what": "parsing %r (%d chars) exceeded %d monitored events in %s" % (s[:80], n, B, v),
                                      "detail": {"text": s, "events": ev, "budget": B}})
            cnt["budget_overruns"] = cnt.get("budget_overruns", 0) + 1
            continue
        distinct += 1
        cnt["parsed_ok" if st == "ok" else "parse_raised"] = cnt.get("parsed_ok" if st == "ok" else "parse_raised", 0) + 1
        if kl.user_vars(k1) != pre:
            res["violations"].append({"sig": "parse-changed-variable", "what": "parsing %r changed the variables: %r" % (s[:80], kl.user_vars(k1)),
                                      "detail": {"text": s}})
        # parse again in the same interpreter, same module
        k1b = k1
        mod_before = None
        st2, v2, ev2 = sb.run(B, k1b.prog, s)
        cnt["reparsed_compared"] = cnt.get("reparsed_compared", 0) + 1
        if st != st2 or (st == "raised" and v != v2):
            # a parse-time .module() switch legitimately changes what the second parse sees
            if ".module" not in s:
                res["violations"].append({"sig": "reparse-differs|outcome", "what": "two parses of %r: %s/%s then %s/%s" % (s[:80], st, v if st != "ok" else "", st2, v2 if st2 != "ok" else ""),
                                          "detail": {"text": s}})
            continue
        if st != "ok":
            continue
        if ".module" not in s:
            try:
                a, b = struct(v[1]), struct(v2[1])
            except RecursionError:
                a = b = None
            if a != b or v[0] != v2[0]:
                res["violations"].append({"sig": "reparse-differs|structure", "what": "two parses of %r are structurally different" % s[:80], "detail": {"text": s}})
                continue
        # evaluation of first parse (fresh k2) vs evaluation of a re-parse (fresh k3 parses twice)
        if _has_io(s) or ".module" in s or ".comment" in s:
            continue
        k2, k3 = kl.new(), kl.new()
        s2a = sb.run(B, k2.prog, s)
        sb.run(B, k3.prog, s)
        s3b = sb.run(B, k3.prog, s)
        if s2a[0] != "ok" or s3b[0] != "ok":
            continue
        e2 = _eval_prog(sb, k2, s2a[1][1])
        e3 = _eval_prog(sb, k3, s3b[1][1])
        if e2[0] == "budget" or e3[0] == "budget":
            cnt["evaluation_over_budget_not_compared"] = cnt.get("evaluation_over_budget_not_compared", 0) + 1
            continue
        cnt["evaluated_compared"] = cnt.get("evaluated_compared", 0) + 1
        diff = None
        if e2[0] != e3[0]:
            diff = ("outcome", "%s vs %s" % (e2[:2], e3[:2]))
        elif e2[0] == "ok":
            try:
                c2, c3 = _noaddr(canon(e2[1])), _noaddr(canon(e3[1]))
                d = same(c2, c3, "exact")
            except RecursionError:
                d = None
            if d:
                diff = (d, "%s vs %s" % (brief(c2), brief(c3)))
        if diff:
            # control: the first-parse procedure repeated in another fresh interpreter; if that differs from
            # itself the program is nondeterministic by itself (prints object addresses, random numbers, clocks)
            k4 = kl.new()
            s4 = sb.run(B, k4.prog, s)
            e4 = _eval_prog(sb, k4, s4[1][1]) if s4[0] == "ok" else ("raised", None, 0)
            stable = e4[0] == e2[0]
            if stable and e2[0] == "ok":
                try:
                    stable = same(_noaddr(canon(e2[1])), _noaddr(canon(e4[1])), "exact") is None
                except RecursionError:
                    stable = False
            if not stable:
                cnt["nondeterministic_programs_not_judged"] = cnt.get("nondeterministic_programs_not_judged", 0) + 1
            else:
                res["violations"].append({"sig": "reparse-eval-differs|" + diff[0], "what": "%r: evaluation of the first parse vs of a re-parse: %s" % (s[:80], diff[1]), "detail": {"text": s}})
    res["distinct_count"] = distinct
    cnt["worst_events_per_(n+4)^2_x1000"] = 0   # placeholder key replaced below (max is not additive)
    del cnt["worst_events_per_(n+4)^2_x1000"]
    res["show"] = {"strings": case["strings"][:3], "batch_size": len(case["strings"]), "worst_events_over_(n+4)^2": round(worst, 2)}
    cnt["max_ratio_buckets:" + ("<5" if worst < 5 else "<25" if worst < 25 else "<100" if worst < 100 else ">=100")] = 1
    return res
