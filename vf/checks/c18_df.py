"""C18, table-merge family: PandasDataFrameCache.update / get_dataframe / unload under the controlled scheduler.

The third mechanism of the property ("per-file append lock and retry loop for table merges") is driven here:
client threads append single-row frames with unique index values to one file, read it and unload it.  The
module-level `threading` of klongpy.db.df_cache is replaced (attribute assignment from the harness) by a proxy whose
Lock() is a scheduler-aware lock, so the creation and lookup of the per-file append lock are yield points too.

Sequential model: the file is a grow-only set of rows.  An update returns a frame that holds its own row and
every row whose update returned before this one was called; a read holds every row appended before its call and
nothing that was appended after its return; at quiescence disk = cache = initial rows + all appended rows.
"""
import os
import shutil


class _ThreadingProxy:
    def __init__(self, real, sched, S):
        self._real, self._s, self._S = real, sched, S
        self.created = 0

    def Lock(self):
        self.created += 1
        return self._S.SLock(self._s, "append")

    def __getattr__(self, n):
        return getattr(self._real, n)


def execute_df(ctx, case, chooser, tag):
    import pandas as pd
    import klongpy.db.file_cache as fc
    import klongpy.db.df_cache as dc
    from klongpy.db.helpers import serialize_df, deserialize_df
    from vf.mon import sched as S
    root = os.path.join(ctx["dir"], "run")
    shutil.rmtree(root, ignore_errors=True)
    os.makedirs(root)
    initial = {}
    for f, present in case["initial"].items():
        if present:
            df0 = pd.DataFrame({"v": ["init-a", "init-b"]}, index=[1000, 1001])
            with open(os.path.join(root, f), "wb") as fh:
                fh.write(serialize_df(df0))
            initial[f] = {1000, 1001}
        else:
            initial[f] = set()
    limit = {"big": 10 ** 7, "one": 400, "two": 800}[case["limit"]]
    sch = S.Scheduler(chooser)
    had_open = "open" in fc.__dict__
    real_open, real_os, real_threading = fc.__dict__.get("open"), fc.os, dc.threading
    sopen, osproxy = S.make_fs(sch, os)
    cache = dc.PandasDataFrameCache(max_memory=limit, root_path=root)
    try:
        cache.executor.shutdown(wait=False)
    except Exception:
        pass
    cache.file_futures_lock = S.SLock(sch, "futures")
    cache.executor = S.SExecutor(sch)
    tproxy = _ThreadingProxy(real_threading, sch, S)
    fc.open = sopen
    fc.os = osproxy
    dc.threading = tproxy
    hist = []

    def client(ti, prog):
        def body():
            for oi, (kind, f) in enumerate(prog):
                rec = {"thread": ti, "op": None, "file": f, "call": sch.step, "ret": None, "res": None}
                hist.append(rec)
                try:
                    if kind == "append":
                        row = 10 * ti + oi
                        rec["op"] = ("append", row)
                        r = cache.update(f, pd.DataFrame({"v": ["t%d-op%d" % (ti, oi)]}, index=[row]))
                        rec["res"] = ("rows", frozenset(int(i) for i in r.index))
                    elif kind == "read":
                        rec["op"] = ("read", None)
                        r = cache.get_dataframe(f)
                        rec["res"] = ("rows", frozenset(int(i) for i in r.index))
                    else:
                        rec["op"] = ("unload", None)
                        cache.unload_file(f)
                        rec["res"] = ("ok", None)
                except MemoryError:
                    rec["res"] = ("raise", "MemoryError")
                except BaseException as e:
                    rec["res"] = ("raise", type(e).__name__ + ":" + str(e)[:80])
                rec["ret"] = sch.step
        return body
    for ti, prog in enumerate(case["threads"]):
        sch.spawn("client%d" % ti, client(ti, prog))
    out = {"deadlock": None, "violations": []}
    try:
        sch.run()
    except S.Deadlock:
        out["deadlock"] = sch.deadlock
    finally:
        if had_open:
            fc.open = real_open
        else:
            del fc.open
        fc.os = real_os
        dc.threading = real_threading
    out["trace"] = [(n, l) for _, n, l in sch.trace]
    out["choices"] = list(sch.choices)
    out["preemptions"] = sch.preemptions
    out["history"] = hist
    out["locks_created"] = tproxy.created
    mix = "df:" + "+".join(sorted(op[0] for th in case["threads"] for op in th))
    V = out["violations"]
    if out["deadlock"]:
        V.append(("deadlock|%s" % mix, "no enabled thread: %s" % (out["deadlock"],)))
        return out
    for t in sch.threads:
        if t.exc is not None:
            V.append(("thread-died:%s|%s" % (type(t.exc).__name__, mix), "%s died with %r" % (t.name, t.exc)))
    for r in hist:
        if r["res"] and r["res"][0] == "raise" and r["res"][1] != "MemoryError":
            V.append(("raises:%s|%s" % (r["res"][1].split(":")[0], mix), "%s on %s raised %s" % (r["op"][0], r["file"], r["res"][1])))
    if V:
        return out
    for f in case["initial"]:
        if any(r["file"] == f and r["res"] == ("raise", "MemoryError") for r in hist):
            continue        # an update refused for lack of room may or may not have reached the disk: not judged
        h = [r for r in hist if r["file"] == f and r["res"] is not None and r["res"][0] != "raise"]
        appends = [r for r in h if r["op"][0] == "append"]
        everything = set(initial[f]) | {r["op"][1] for r in appends}
        for r in h:
            if r["res"][0] != "rows":
                continue
            rows = set(r["res"][1])
            must = set(initial[f]) | {a["op"][1] for a in appends if a["ret"] is not None and a["ret"] < r["call"]}
            if r["op"][0] == "append":
                must.add(r["op"][1])
            may = set(initial[f]) | {a["op"][1] for a in appends if a["call"] <= r["ret"]}
            if not must <= rows:
                V.append(("lost-rows|%s|%s" % (r["op"][0], mix), "%s of %s by thread %d returned rows %s without %s, which were appended before it was called" %
                          (r["op"][0], f, r["thread"], sorted(rows), sorted(must - rows))))
                break
            if not rows <= may:
                V.append(("rows-from-nowhere|%s|%s" % (r["op"][0], mix), "%s of %s returned rows %s never appended in time" % (r["op"][0], f, sorted(rows - may))))
                break
        if V:
            continue
        p = os.path.join(root, f)
        disk = None
        if os.path.exists(p):
            raw = open(p, "rb").read()
            disk = set(int(i) for i in deserialize_df(raw).index) if raw else set()
        want = everything if (appends or initial[f]) else None
        if disk != want:
            V.append(("final-disk|%s" % mix, "file %s on disk holds rows %s, every update returned, so it must hold %s" % (f, None if disk is None else sorted(disk), None if want is None else sorted(want))))
            continue
        info = cache.file_futures.get(f)
        if info is not None:
            fut = info[-1]
            if not fut.done():
                V.append(("final-pending-future|%s" % mix, "entry of %s still has an unfinished future at quiescence" % f))
                continue
            if fut._exc is None and fut._res is not None:
                cached = set(int(i) for i in fut._res.index)
                if cached != disk:
                    V.append(("final-cache!=disk|%s" % mix, "cached rows of %s %s differ from disk %s" % (f, sorted(cached), sorted(disk))))
                    continue
            if info[0]:
                V.append(("final-writing-flag|%s" % mix, "entry of %s still marked as being written at quiescence" % f))
    if not V:
        claims = sum(int(i[1]) for i in cache.file_futures.values())
        if int(cache.current_memory_usage) != claims:
            V.append(("final-accounting|%s" % mix, "current_memory_usage=%s, recorded claims=%s" % (cache.current_memory_usage, claims)))
        elif cache.current_memory_usage > limit or cache.current_memory_usage < 0:
            V.append(("final-accounting-range|%s" % mix, "current_memory_usage=%s limit=%s" % (cache.current_memory_usage, limit)))
    return out
