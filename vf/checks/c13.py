"""C13 - remote evaluation over IPC equals evaluation on the server.

(a) twin differential: a live server interpreter S (real TCP on an ephemeral loopback port) and a
    client interpreter C in this process; every remote operation issued on C is mirrored locally on a
    twin T of the server; client-side results (and :_ of them) must match.
(b) framing: the real stream_recv_msg reads a real asyncio.StreamReader that is fed every cut of the
    byte stream of one to three consecutive frames into up to three reads; it must return exactly
    the encoded messages, in order, and never complete on a strict prefix of a frame.
"""
import asyncio
import itertools
import random
import socket
import uuid

from vf.core import kl
from vf.core.canon import canon, same, brief, shape_class, I, R, S, C, Y, L, D
from vf.core.render import render

PROPERTY = "C13"
LEVEL = "exploration"
RULE = ("case = (a) a sequence of <= 8 remote operations {f(\"expr\"), f(:name,args), proxy q(args), remote dictionary set/get, :_ of a remote result} over the "
        "transportable universe against a live server, mirrored on a local twin of the server; or (b) one to three consecutive frames and the set of all cuts of "
        "their byte stream into <= 3 reads (exhaustive for the frames given). Distinct = distinct operation sequence / distinct (frames, cut); non-trivial = "
        "a client-side result was compared with the twin / a cut was decoded and compared.")
ASSUMPTIONS = ["one server per process (module-level singleton): sequences run one after another against the same live server with fresh variable names",
               "pickle transports the value universe; functions are outside the transportable universe (they arrive as proxies by design)"]
MIN_COUNTS = {"quick": {"nontrivial": 300, "remote_results_compared": 1200, "fragmentations_checked": 15000, "undefined_transported": 50},
              "thorough": {"nontrivial": 6000, "remote_results_compared": 25000, "fragmentations_checked": 80000, "undefined_transported": 1000}}
CASE_TIMEOUT = 300
MIN_SHARD = 4

VALUES = [I(0), I(7), I(-3), R(2.5), S(""), S("hello world"), S('q"uote'), C("c"), Y("sym"), L([]), L([I(1), I(2), I(3)]), L([R(1.5), R(-2.0)]),
          L([S("ab"), S("cd")]), L([L([I(1)]), L([I(2), I(3)])]), L([I(1), S("a"), Y("k"), L([C("x")])]), D([(S("k"), I(1)), (I(2), L([I(1), I(2)]))]),
          D([]), L([L([I(1), I(2)]), L([I(3), I(4)])]),
          # atoms that are equal to one another as Python values but differ in kind
          C("a"), Y("a"), S("a"), C("q"), Y("q"), R(1.0), I(1), R(0.0), R(7.0)]


def _gen_seq(rng, n):
    ops = []
    for _ in range(n):
        r = rng.random()
        v = rng.choice(VALUES)
        if r < 0.2:
            ops.append(["eval", rng.choice(["1+2", "!5", "\"ab\",\"cd\"", "[1 2 3]*2", ":foo", "1%0", "#\"hello\"", "|[1 2 3]", "[[1 2] [3 4]]@1", ",0cx", ":{[1 2]}", "*[]",
                                            "0ca", ":a", "\"a\"", "0cq", ":q", "1.0", "1", "7.0", "7", "0.0", "1=1"])])
        elif r < 0.32:
            ops.append(["evalundef", rng.choice(["1%0", "[1 2]?9", ":{[1 2]}?7", "*[1]"])])
        elif r < 0.5:
            ops.append(["dset", rng.choice(["ka", "kb", "kc"]), rng.randrange(len(VALUES))])
        elif r < 0.68:
            ops.append(["dget", rng.choice(["ka", "kb", "kc", "never"])])
        elif r < 0.80:
            ops.append(["call", rng.choice(["idf", "pairf", "sizef", "nilf", "tripf", "varf"]), [rng.randrange(len(VALUES)) for _ in range(3)]])
        elif r < 0.89:
            ops.append(["proxy", rng.choice(["idf", "pairf", "sizef", "nilf", "tripf", "varf", "varf"]), [rng.randrange(len(VALUES)) for _ in range(3)]])
        elif r < 0.93:
            # the server function varf is re-defined (through the connection) with another number of parameters
            ops.append(["redef", rng.randrange(4)])
        else:
            ops.append(["symget", rng.choice(["ka", "kb"])])
    return ops


VARF_BODIES = [("{x}", 1), ("{x,,y}", 2), ("{x,,y,,z}", 3), ("{[1 2],x}", 1)]


def _frames_cases(tier, rng):
    msgs_pool = [1, "a", [1, 2], {"k": 1}, None, "x" * 40, list(range(30))]
    out = []
    sets = [[1], [1, "a"], [1, "a", [1, 2]], [None], [{"k": 1}, 1]]
    if tier == "thorough":
        sets += [[rng.choice(msgs_pool) for _ in range(rng.randint(1, 3))] for _ in range(40)]
    else:
        sets += [["x" * 40], [list(range(30)), 1], [[1, 2], "a", 1], [None, "a"], ["", 0, None]]
    for s in sets:
        out.append({"t": "frames", "msgs": s})
    return out


def cases(tier, seed):
    rng = random.Random(13000 + seed)
    out = _frames_cases(tier, rng)
    n = 350 if tier == "quick" else 7000
    for _ in range(n):
        out.append({"t": "seq", "ops": _gen_seq(rng, rng.randint(2, 8))})
    # the same spelling sent as a character, a symbol and a string (and equal numbers of different kind) over one connection, in every order
    import itertools as _it
    for perm in _it.permutations(["0ca", ":a", "\"a\""]):
        out.append({"t": "seq", "ops": [["eval", t] for t in perm] + [["eval", perm[0]]]})
    for perm in _it.permutations(["1", "1.0", "1=1"]):
        out.append({"t": "seq", "ops": [["eval", t] for t in perm] + [["eval", perm[0]]]})
    # a proxy fetched, the server function re-defined with another arity, the proxy fetched again - all on one connection
    for i in range(len(VARF_BODIES)):
        for j in range(len(VARF_BODIES)):
            if i != j:
                for rep in range(1 if tier == "quick" else 6):
                    vals = lambda: [rng.randrange(len(VALUES)) for _ in range(3)]
                    out.append({"t": "seq", "ops": [["redef", i], ["proxy", "varf", vals()], ["redef", j], ["proxy", "varf", vals()], ["call", "varf", vals()],
                                                    ["redef", i], ["proxy", "varf", vals()]]})
    return out


# --------------------------------------------------------------------------------- live pair

def _free_port():
    s = socket.socket()
    s.bind(("127.0.0.1", 0))
    p = s.getsockname()[1]
    s.close()
    return p


def init_shard(tier, seed):
    import io
    import sys
    from klongpy.repl import create_repl
    buf = kl.Out()
    o, e = sys.stdout, sys.stderr
    sys.stdout = sys.stderr = buf
    try:
        S_, sloops = create_repl()
        C_, cloops = create_repl()
    finally:
        sys.stdout, sys.stderr = o, e
    port = _free_port()
    r = S_(".srv(%d)" % port)
    T_ = kl.new()
    for k_ in (S_, T_):
        k_("idf::{x}")
        k_("pairf::{x,,y}")
        k_("sizef::{#x}")
        k_("cnt::0")
        k_("nilf::{cnt::cnt+1;cnt}")            # a nilad with a visible side effect
        k_("tripf::{x,,y,,z}")
        k_("varf::{x}")
    import time
    ok = None
    for _ in range(100):
        try:
            C_("f::.cli(%d)" % port)
            ok = True
            break
        except Exception as ex:
            ok = ex
            time.sleep(0.05)
    if ok is not True:
        raise RuntimeError("client could not connect: %r" % (ok,))
    C_("d::.clid(f)")
    return {"S": S_, "C": C_, "T": T_, "n": 0, "buf": buf, "port": port, "reconnects": 0}


def _ensure_connected(ctx):
    """A server-side failure (e.g. get of a never-set key) tears the connection down (that is C14's
    subject); the harness then opens a new client connection so that the next sequence can run."""
    Cc = ctx["C"]
    r = _quiet(lambda: kl.ev(Cc, 'f("1")'))
    if r[0] == "ok" and canon(r[1]) == ["I", 1]:
        return True
    import time
    for _ in range(60):
        r = _quiet(lambda: kl.ev(Cc, "f::.cli(%d);d::.clid(f);f(\"1\")" % ctx["port"]))
        if r[0] == "ok":
            ctx["reconnects"] += 1
            return True
        time.sleep(0.05)
    return False


def _quiet(fn):
    import sys
    import io
    o, e = sys.stdout, sys.stderr
    sys.stdout = sys.stderr = io.StringIO()
    try:
        return fn()
    finally:
        sys.stdout, sys.stderr = o, e


def _run_seq(ctx, case, res):
    Cc, T = ctx["C"], ctx["T"]
    cnt = res["counters"]
    ctx["n"] += 1
    sfx = "v%d" % ctx["n"]
    hist = []

    def compare(form, text, rc, rt, vclass="-"):
        cnt["remote_results_compared"] = cnt.get("remote_results_compared", 0) + 1
        res["nontrivial"] = True
        if rc[0] != rt[0]:
            res["violations"].append({"sig": "%s|%s|%s" % (form, vclass, "remote-%s-local-%s" % (rc[0], rt[0])),
                                      "what": "%s: remote %s, on the server %s" % (text, rc[:2] if rc[0] == "err" else brief(canon(rc[1])), rt[:2] if rt[0] == "err" else brief(canon(rt[1]))),
                                      "detail": {"history": list(hist)}})
            return False
        if rc[0] == "ok":
            a, b = canon(rc[1]), canon(rt[1])
            if a[0] == "F" or b[0] == "F" or a[0] == "X" or b[0] == "X":
                return True      # functions arrive as proxies by design
            d = same(a, b, "exact")
            if d:
                res["violations"].append({"sig": "%s|%s|%s" % (form, vclass, d), "what": "%s: remote %s, on the server %s" % (text, brief(a), brief(b)), "detail": {"history": list(hist)}})
                return False
        return True

    for op in case["ops"]:
        t = op[0]
        if not _ensure_connected(ctx):
            res["harness_error"] = "cannot reconnect to the server"
            return
        if t in ("eval", "evalundef"):
            text = 'f("%s")' % op[1].replace('"', '""')
            hist.append(text)
            rc = _quiet(lambda: kl.ev(Cc, text))
            rt = kl.ev(T, op[1])
            if not compare("eval", text, rc, rt):
                break
            if t == "evalundef" or (rt[0] == "ok" and canon(rt[1]) == ["U"]):
                # :undefined must still test as undefined after transport
                text2 = ':_f("%s")' % op[1].replace('"', '""')
                hist.append(text2)
                rc2 = _quiet(lambda: kl.ev(Cc, text2))
                rt2 = kl.ev(T, ":_(%s)" % op[1])
                cnt["undefined_transported"] = cnt.get("undefined_transported", 0) + 1
                if not compare("undefined-test", text2, rc2, rt2):
                    break
        elif t == "dset":
            v = VALUES[op[2]]
            key = op[1] + sfx
            Cc["vv"] = kl.topy(v, Cc)
            text = "d,[;:%s;vv]  # vv=%s" % (key, brief(v, 40))
            hist.append(text)
            rc = _quiet(lambda: kl.ev(Cc, "d,[;:%s;vv]" % key))
            T[key] = kl.topy(v, T)
            if rc[0] != "ok":
                res["violations"].append({"sig": "dict-set|%s|raises:%s" % (shape_class(v), rc[1]), "what": "%s raised %s %s" % (text, rc[1], rc[2]), "detail": {"history": list(hist)}})
                break
            # read it back on the server itself (through a remote eval) and through the dictionary
            rc2 = _quiet(lambda: kl.ev(Cc, 'f("%s")' % key))
            rt2 = kl.ev(T, key)
            hist.append('f("%s")' % key)
            if not compare("dict-set-then-eval", 'f("%s")' % key, rc2, rt2, shape_class(v)):
                break
        elif t in ("dget", "symget"):
            key = op[1] + sfx
            text = ("d?:%s" % key) if t == "dget" else ("f(:%s)" % key)
            hist.append(text)
            rc = _quiet(lambda: kl.ev(Cc, text))
            if t == "symget":
                rt = kl.ev(T, key)               # f(:name) evaluates the name on the server
            else:
                try:
                    rt = ("ok", T[key])
                except KeyError:
                    rt = ("err", "KeyError", key)
            if not compare("dict-get" if t == "dget" else "sym-get", text, rc, rt):
                break
            if rt[0] == "ok" and canon(rt[1]) == ["U"]:
                cnt["undefined_transported"] = cnt.get("undefined_transported", 0) + 1
        elif t == "redef":
            body, ar = VARF_BODIES[op[1]]
            text = 'f("varf::%s")' % body
            hist.append(text)
            rc = _quiet(lambda: kl.ev(Cc, text))
            kl.ev(T, "varf::%s" % body)
            ctx["varf_arity"] = ar
            cnt["server_function_redefinitions"] = cnt.get("server_function_redefinitions", 0) + 1
            if rc[0] != "ok":
                res["violations"].append({"sig": "redefine|raises:" + rc[1], "what": "%s raised %s" % (text, rc[1]), "detail": {"history": list(hist)}})
                break
        elif t in ("call", "proxy"):
            fn = op[1]
            nargs = {"pairf": 2, "nilf": 0, "tripf": 3, "varf": ctx.get("varf_arity", 1)}.get(fn, 1)
            args = [VALUES[i] for i in op[2][:nargs]]
            if any(a[0] == "D" for a in args) and fn == "sizef":
                pass
            from klongpy.types import KGSym
            import numpy as np
            if t == "call":
                arr = np.empty(1 + nargs, dtype=object)
                arr[0] = KGSym(fn)
                for i, a in enumerate(args):
                    arr[1 + i] = kl.topy(a, Cc)
                Cc["argv"] = arr
                text = "f(argv)  # argv=[:%s %s]" % (fn, " ".join(brief(a, 30) for a in args))
                hist.append(text)
                rc = _quiet(lambda: kl.ev(Cc, "f(argv)"))
            else:
                for i, a in enumerate(args):
                    Cc["a%d" % i] = kl.topy(a, Cc)
                text = "q::f(:%s);q(%s)  # %s" % (fn, ";".join("a%d" % i for i in range(nargs)), " ".join(brief(a, 30) for a in args))
                hist.append(text)
                rc = _quiet(lambda: kl.ev(Cc, "q::f(:%s);q(%s)" % (fn, ";".join("a%d" % i for i in range(nargs)))))
            for i, a in enumerate(args):
                T["a%d" % i] = kl.topy(a, T)
            rt = kl.ev(T, "%s(%s)" % (fn, ";".join("a%d" % i for i in range(nargs))))
            if not compare("fn-call" if t == "call" else "proxy-call", text, rc, rt, ",".join(shape_class(a) for a in args)):
                break
    res["show"] = {"history": hist}
    res["key"] = repr(case["ops"])
    cnt["client_reconnects"] = ctx["reconnects"]
    ctx["reconnects"] = 0


# --------------------------------------------------------------------------------- framing

def _run_frames(ctx, case, res):
    from klongpy.sys_fn_ipc import encode_message, stream_recv_msg
    cnt = res["counters"]
    msgs = case["msgs"]
    ids = [uuid.UUID(int=1000 + i) for i in range(len(msgs))]
    frames = [encode_message(i, m) for i, m in zip(ids, msgs)]
    stream = b"".join(frames)
    n = len(stream)
    bounds = list(itertools.accumulate(len(f) for f in frames))
    loop = asyncio.new_event_loop()
    checked = 0
    bad = None

    async def one(cuts):
        reader = asyncio.StreamReader()
        got = []

        async def consumer():
            for _ in msgs:
                got.append(await stream_recv_msg(reader))
        task = asyncio.ensure_future(consumer())
        pos = 0
        for c in list(cuts) + [n]:
            if c > pos:
                reader.feed_data(stream[pos:c])
                pos = c
            for _ in range(3):
                await asyncio.sleep(0)
            complete = sum(1 for b in bounds if b <= pos)
            if len(got) != complete:
                task.cancel()
                return "after %d of %d bytes %d messages were delivered, %d frames are complete" % (pos, n, len(got), complete)
        reader.feed_eof()
        await asyncio.wait_for(task, 5)
        for (gid, gm), i, m in zip(got, ids, msgs):
            if gid != i or gm != m:
                return "decoded (%s, %r) instead of (%s, %r)" % (gid, gm, i, m)
        return None

    cutsets = [()]
    cutsets += [(a,) for a in range(1, n)]
    if n <= 120:
        cutsets += [(a, b) for a in range(1, n) for b in range(a + 1, n)]
    else:
        rng = random.Random(n)
        interesting = sorted(set([1, 15, 16, 17, 19, 20, 21] + [b + d for b in bounds for d in (-1, 0, 1, 16, 20)]))
        interesting = [x for x in interesting if 0 < x < n]
        cutsets += [(a, b) for a in interesting for b in range(a + 1, n, 7)]
        cutsets += [tuple(sorted(rng.sample(range(1, n), 2))) for _ in range(1500)]
    try:
        for cuts in cutsets:
            r = loop.run_until_complete(one(cuts))
            checked += 1
            if r:
                cls = "inside-id" if any((c - ([0] + bounds)[sum(1 for b in bounds if b <= c)]) < 16 for c in cuts) else "inside-length-or-body"
                bad = (cuts, r, cls)
                break
    finally:
        loop.close()
    cnt["fragmentations_checked"] = checked
    res["evaluations"] = checked
    res["distinct_count"] = checked
    res["show"] = {"frames": [len(f) for f in frames], "messages": [repr(m)[:30] for m in msgs], "cutsets": checked}
    if bad:
        res["violations"].append({"sig": "framing|%d-frames|%s" % (len(frames), bad[2]), "what": "cut %s of a %d-byte stream: %s" % (bad[0], n, bad[1]),
                                  "detail": {"msgs": [repr(m)[:60] for m in msgs], "cuts": list(bad[0])}})


def run_case(ctx, case):
    res = {"nontrivial": False, "counters": {}, "violations": []}
    if case["t"] == "frames":
        _run_frames(ctx, case, res)
    else:
        _run_seq(ctx, case, res)
    return res
