"""C01 - primitive verbs return what the Klong reference prescribes, for all operands.

Reference-model monitor: every application VERB(a) / (a)VERB(b) on literal source text is evaluated
by the real interpreter and compared with vf/ref/verbs.py (written from the reference text in the
repository's docstrings and calibrated against the original Klong test suite, tools/calibrate_c01.py).
Outside a verb's domain the model is silent; where the reference is ambiguous it accepts every reading.
"""
import itertools
import random

from vf.core import kl
from vf.core.canon import canon, same, brief, shape_class, I, R, C, S, Y, L
from vf.core.render import render, NotRenderable
from vf.core import universe as U
from vf.ref import verbs as V

PROPERTY = "C01"
LEVEL = "exploration"
RULE = ("case = batch of applications of one verb: 19 monads x the closed value universe, 27 dyads x (quick: a typed-domain product plus a stratified sample of the full "
        "cross product; thorough: the complete universe x universe cross product plus seeded random nested/ragged extras); evaluated as literal source text and compared "
        "exactly (structure, elements, integer/real/character/string kind) with the reference model. Non-trivial = the operands are inside the verb's reference domain and "
        "a comparison was made; applications are de-duplicated by the generator, so every counted one is distinct.")
ASSUMPTIONS = ["the reference model vf/ref/verbs.py is right where it is not permissive (calibrated: agrees with all 766 single-application lines of the original suite it covers)",
               "operands outside the closed universe classes (rank > 3, integers beyond 2**63) are not explored"]
MIN_COUNTS = {"quick": {"nontrivial": 30000, "verbs_with_100_in_domain": 46}, "thorough": {"nontrivial": 300000, "verbs_with_100_in_domain": 46}}
CASE_TIMEOUT = 600
MEM_LIMIT_GB = 6
MIN_SHARD = 2
BATCH = 300

SMALL_INTS = [I(0), I(1), I(2), I(3), I(-1), I(-2), I(5), I(-5), I(7), I(-7), I(10)]


def _universe(tier, seed):
    u = U.universe()
    rng = random.Random(100 + seed)
    extra = [U.rand_value(rng, 2, "IRCS", 4) for _ in range(20 if tier == "quick" else 80)]
    extra += [U.rand_numeric(rng, 2, 4) for _ in range(20 if tier == "quick" else 80)]
    seen, out = set(), []
    for c in u + extra + [I(-2), I(-5), I(7), L([I(-7), I(7), I(-9)]), L([I(2), I(-2)]), L([I(-7), L([I(7), I(-9)])]), R(-0.5), L([R(1.5), R(2.5), R(-3.5)]),
                          L([I(0), I(1), I(1), I(3)]), L([I(2), I(0), I(1)]), S("xyyyyz"), S("yy"), S("-123"), S("1.23"), S("x"), S(":symbol"), S("symbol"), L([S("aa"), S("b")]),
                          L([L([I(1), I(2), I(3)]), L([I(4), I(5), I(6)]), L([I(7), I(8), I(9)])]), L([I(1), I(2), I(3), I(4), I(5), I(6)]), L([I(1), I(3), I(5)]), L([I(0), I(2)]),
                          L([I(2), I(2)]), L([I(2), I(3)]), L([I(3), I(3)]), L([I(2), I(-1)]), L([I(-1), I(2)]), L([I(2), I(2), I(2)]), L([I(0), I(1)]), L([I(1), I(1)]), L([I(0), I(0), I(0)]),
                          R(5.3), R(4.2), I(4), I(6), I(-3), I(8), I(99), L([I(99), I(0)]), L([I(99), I(0), I(1)]), L([C("x"), I(1), I(3)]), L([S("xx"), I(1)]), L([I(42), I(0), I(1)]),
                          L([I(42), I(1), I(0)]), L([I(9), I(1), I(1), I(0)])]:
        r = repr(c)
        if r not in seen:
            seen.add(r)
            out.append(c)
    return out


def cases(tier, seed):
    rng = random.Random(1000 + seed)
    u = _universe(tier, seed)
    out = []
    for op in V.MONADS:
        items = [[a] for a in u]
        items += _targeted(op, 1, random.Random("%s/1/%d" % (op, seed)), 300 if tier == "quick" else 20000)
        for i in range(0, len(items), BATCH):
            out.append({"verb": op, "ar": 1, "items": items[i:i + BATCH]})
    for op in V.DYADS:
        pairs = []
        if tier == "thorough":
            pairs = [[a, b] for a in u for b in u]
        else:
            # typed product: every pair for which the model is defined on a coarse pre-filter, plus a stratified sample
            left = u if op in ("+", "-", "*", "%", "^", "&", "|", "<", ">", "=", "~", ",", "!", ":%", "@", ":@", ":=", ":-", "?", ":$") else SMALL_INTS + [x for x in u if x[0] == "L" and len(x[1]) <= 3 and all(y[0] == "I" for y in x[1])] + [R(5.3), R(4.2), R(0.5)]
            for a in left:
                for b in u:
                    r = rng.random()
                    if r < (0.2 if len(left) > 100 else 0.6):
                        pairs.append([a, b])
        pairs += _targeted(op, 2, random.Random("%s/2/%d" % (op, seed)), 300 if tier == "quick" else 30000)
        for i in range(0, len(pairs), BATCH):
            out.append({"verb": op, "ar": 2, "items": pairs[i:i + BATCH]})
    return out


def _rect(rng, dims, leaf):
    if not dims:
        return leaf()
    return L([_rect(rng, dims[1:], leaf) for _ in range(dims[0])])


def _leaf_fn(rng, kinds="IR"):
    k = rng.choice(kinds)

    def leaf():
        if k == "I":
            return I(rng.choice([0, 1, 2, 3, -1, -4, 7, 12, 100, -100]))
        if k == "R":
            return R(rng.choice([0.5, -1.5, 2.25, 1e3, -0.125, 3.0]))
        if k == "C":
            return C(rng.choice("abcxyz 0"))
        if k == "S":
            return S(rng.choice(["", "a", "ab", "xyz", "hello"]))
        return Y(rng.choice(["a", "b", "foo"]))
    return leaf


def _seq(rng, kinds="IRCSY", maxlen=6, allow_nested=True):
    """A list or string operand: flat typed vector, mixed vector, matrix, rank-3 array, ragged list or string."""
    r = rng.random()
    if r < 0.2:
        return S("".join(rng.choice("abcab xyz") for _ in range(rng.randint(0, maxlen + 2))))
    if r < 0.5:
        return _rect(rng, [rng.randint(0, maxlen)], _leaf_fn(rng, kinds))
    if r < 0.6:
        return L([_leaf_fn(rng, kinds)() for _ in range(rng.randint(1, maxlen))])
    if not allow_nested:
        return _rect(rng, [rng.randint(1, maxlen)], _leaf_fn(rng, kinds))
    if r < 0.8:
        return _rect(rng, [rng.randint(1, 4), rng.randint(1, 4)], _leaf_fn(rng, "IR" if "I" in kinds else kinds))
    if r < 0.88:
        return _rect(rng, [rng.randint(1, 3), rng.randint(1, 3), rng.randint(1, 3)], _leaf_fn(rng, "I"))
    leaf = _leaf_fn(rng, "I")
    return L([_rect(rng, [rng.randint(0, 3)], leaf) if rng.random() < 0.7 else leaf() for _ in range(rng.randint(1, 4))])


def _perturb(rng, c):
    """A value that differs from c in exactly one small way: an atom wrapped in a one-element list (or the reverse), one number
    nudged, one element dropped or repeated, a character for its one-character string.  Near misses for Match, Find, Group, Range."""
    if c[0] != "L" or not c[1]:
        if c[0] == "I":
            return rng.choice([I(c[1] + 1), L([c]), R(c[1] + 0.5)])
        if c[0] == "R":
            return rng.choice([R(c[1] + 0.25), L([c])])
        if c[0] == "S" and c[1]:
            return rng.choice([S(c[1][:-1]), S(c[1] + "a"), L([c])])
        return L([c])
    xs = list(c[1])
    i = rng.randrange(len(xs))
    r = rng.random()
    if r < 0.45:
        xs[i] = _perturb(rng, xs[i])
    elif r < 0.6 and xs[i][0] == "L" and len(xs[i][1]) == 1:
        xs[i] = xs[i][1][0]                    # unwrap a one-element list
    elif r < 0.75:
        xs[i] = L([xs[i]])                     # wrap an element
    elif r < 0.85:
        del xs[i]
    elif r < 0.95:
        xs.insert(i, xs[i])
    else:
        xs.reverse()
    return L(xs)


def _deep(rng):
    """A nested list with one-element sub-lists and repeated atoms (where wrapped and bare values meet)."""
    leaf = _leaf_fn(rng, rng.choice(["I", "I", "IR", "S", "IS"]))

    def node(d):
        if d == 0 or rng.random() < 0.45:
            return leaf()
        return L([node(d - 1) for _ in range(rng.choice([1, 1, 2, 3]))])
    return L([node(2) for _ in range(rng.randint(1, 4))])


def _targeted(op, ar, rng, n):
    """Operands drawn inside the verb's reference domain, for the verbs whose domain the plain universe barely touches."""
    out = []
    for _ in range(n):
        if ar == 1:
            if op == "!":
                out.append([I(rng.randint(0, 600))])
            elif op == "+":
                out.append([_rect(rng, [rng.randint(1, 5), rng.randint(1, 5)], _leaf_fn(rng, "IRCSY"))])
            elif op == "&":
                out.append([rng.choice([I(rng.randint(0, 9)), _rect(rng, [rng.randint(0, 7)], lambda: I(rng.randint(0, 4)))])])
            elif op == ":#":
                out.append([rng.choice([I(rng.randint(32, 126)), _rect(rng, [rng.randint(0, 5)], lambda: I(rng.randint(32, 126))),
                                        L([_rect(rng, [rng.randint(0, 3)], lambda: I(rng.randint(32, 126))) for _ in range(rng.randint(1, 3))])])])
            elif op in ("=", "?") and rng.random() < 0.4:
                # elements next to their near misses: [x] beside x, 1 beside 1.5, a list beside the same list with one change
                base = [_deep(rng) if rng.random() < 0.5 else _leaf_fn(rng, "IS")() for _ in range(rng.randint(1, 3))]
                es = []
                for b in base:
                    es += [b, rng.choice([b, _perturb(rng, b)])]
                rng.shuffle(es)
                out.append([L(es)])
            elif op in ("<", ">", "=", "?"):
                out.append([_seq(rng, "IRCS", 7, allow_nested=op in ("=", "?"))])
            elif op in ("_", "-", "%"):
                out.append([rng.choice([_leaf_fn(rng, "IR")(), _seq(rng, "IR", 5)])])
            else:
                out.append([_seq(rng)])
        else:
            if op in (":@", ":-"):
                dims = [rng.randint(1, 4) for _ in range(rng.randint(1, 3))]
                a = _rect(rng, dims, _leaf_fn(rng, "IRCY"))
                idx = [I(rng.randint(0, d - 1)) for d in dims]
                out.append([a, L(idx)] if op == ":@" else [a, L([_leaf_fn(rng, "IRCSY")()] + idx)])
            elif op in ("@", ":="):
                a = _seq(rng)
                n_a = len(a[1])
                if n_a == 0:
                    continue
                idx = [I(rng.randint(0, n_a - 1)) for _ in range(rng.randint(1, 4))]
                if op == "@":
                    out.append([a, rng.choice([idx[0], L(idx), L([])])])
                else:
                    v = rng.choice([_leaf_fn(rng, "IRCSY")(), L([I(7), I(8)])]) if a[0] == "L" else rng.choice([C("Q"), S("QR")])
                    out.append([a, L([v] + idx)])
            elif op in ("#", "_", ":+"):
                b = _seq(rng)
                out.append([I(rng.randint(-2 * len(b[1]) - 2, 2 * len(b[1]) + 2)), b])
            elif op in (":_", ":#"):
                b = _seq(rng)
                m = len(b[1])
                if op == ":_":
                    pos = sorted(rng.randint(0, m) for _ in range(rng.randint(1, 3)))
                    out.append([rng.choice([I(pos[0]), L([I(p) for p in pos])]), b])
                else:
                    out.append([rng.choice([I(rng.randint(1, m + 2)), L([I(rng.randint(1, 3)) for _ in range(rng.randint(1, 3))])]), b])
            elif op == ":^":
                shape = rng.choice([I(rng.randint(0, 9)), L([I(rng.randint(1, 4)) for _ in range(rng.randint(1, 3))]), L([I(-1), I(2)]), L([I(3), I(-1)])])
                out.append([shape, rng.choice([_seq(rng, allow_nested=False), _leaf_fn(rng, "IRCY")(), _seq(rng)])])
            elif op == "?" and rng.random() < 0.35:
                base = [_deep(rng) if rng.random() < 0.6 else _leaf_fn(rng, "IS")() for _ in range(rng.randint(1, 3))]
                es = []
                for b in base:
                    es += [b, _perturb(rng, b)]
                rng.shuffle(es)
                out.append([L(es), rng.choice(es) if rng.random() < 0.7 else _perturb(rng, rng.choice(es))])
            elif op == "~" and rng.random() < 0.5:
                a = _deep(rng) if rng.random() < 0.7 else _seq(rng)
                out.append([a, rng.choice([a, _perturb(rng, a), _perturb(rng, a)])])
            elif op == "?":
                a = _seq(rng)
                es = V.elems(a) if a[1] else []
                out.append([a, rng.choice(es) if es and rng.random() < 0.7 else _leaf_fn(rng, "IRCSY")()])
                if a[0] == "S" and a[1]:
                    i = rng.randint(0, len(a[1]) - 1)
                    out.append([a, S(a[1][i:i + rng.randint(0, 2)])])
            elif op in ("!", ":%"):
                mk = lambda: I(rng.choice([1, 2, 3, 5, 7, -1, -2, -3, -5, 12, -12, 100]))
                dims = rng.choice([[], [3], [2, 2], [2]])
                out.append([_rect(rng, dims, mk) if rng.random() < 0.6 else mk(), _rect(rng, dims, mk) if rng.random() < 0.6 else mk()])
            elif op == "$":
                out.append([I(rng.randint(-9, 9)), rng.choice([_leaf_fn(rng, "IRCSY")(), _seq(rng)])])
            elif op == ":$":
                tmpl = _leaf_fn(rng, "IRCSY")()
                text = rng.choice(["12", "-7", "1.5", "-0.25", "x", "ab", ":sym", "sym", "", "1e3", "12a", "1.2.3", "--1"])
                out.append([rng.choice([tmpl, L([tmpl, tmpl])]), rng.choice([S(text), L([S(text), S("3")])])])
            elif op in ("~", ","):
                a = _seq(rng)
                out.append([a, rng.choice([a, _seq(rng), _leaf_fn(rng, "IRCSY")()])])
            else:
                # atomic arithmetic / comparison: conformable shapes and atom extension
                kinds = "IR" if op not in ("<", ">", "=") else rng.choice(["IR", "C", "S"])
                dims = rng.choice([[], [rng.randint(0, 4)], [2, 3], [2, 2, 2]])
                la, lb = _leaf_fn(rng, kinds), _leaf_fn(rng, kinds)
                a = _rect(rng, dims, la) if rng.random() < 0.7 else la()
                b = _rect(rng, dims, lb) if rng.random() < 0.7 else lb()
                out.append([a, b])
    seen, uniq = set(), []
    for it in out:
        r = repr(it)
        if r not in seen:
            seen.add(r)
            uniq.append(it)
    return uniq


def init_shard(tier, seed):
    return {"k": kl.new()}


NAMES1 = {"@": "atom", ":#": "char", "!": "enumerate", "&": "expand", "*": "first", "_": "floor", "$": "format", "<": "grade-up", ">": "grade-down", "=": "group", ",": "list",
          "-": "negate", "~": "not", "?": "range", "%": "reciprocal", "|": "reverse", "^": "shape", "#": "size", "+": "transpose"}
NAMES2 = {"+": "plus", "-": "minus", "*": "times", "%": "divide", "^": "power", "!": "remainder", ":%": "integer-divide", "&": "min", "|": "max", "<": "less", ">": "more",
          "=": "equal", "~": "match", ",": "join", "#": "take", "_": "drop", "@": "index", ":@": "index-in-depth", ":=": "amend", ":-": "amend-in-depth", ":_": "cut",
          ":#": "split", ":+": "rotate", ":^": "reshape", "?": "find", "$": "format2", ":$": "form"}
ATOMIC2 = ("+", "-", "*", "%", "^", "!", ":%", "&", "|", "<", ">", "=", "$", ":$")


def _mixed_depth(a, b):
    """Two lists paired element by element where, at some level, a sub-list meets an atom."""
    if a[0] == "L" and b[0] == "L" and len(a[1]) == len(b[1]):
        for x, y in zip(a[1], b[1]):
            if (x[0] == "L") != (y[0] == "L") or _mixed_depth(x, y):
                return True
    return False


def _text_kinds(a, b):
    """A symbol, character and string of one spelling paired with each other (the host keeps all three as str)."""
    if a[0] == "L" and b[0] == "L" and len(a[1]) == len(b[1]):
        return any(_text_kinds(x, y) for x, y in zip(a[1], b[1]))
    return a[0] != b[0] and a[0] in "YCS" and b[0] in "YCS" and a[1] == b[1]


def _rank(c):
    from vf.core.canon import rect_shape
    sh = rect_shape(c) if c[0] == "L" else None
    return len(sh) if sh else 0


def _relation(op, ar, args):
    """Verb-specific relation between the operands, part of the mechanism key."""
    if ar == 1 and op in ("=", "?") and args[0][0] == "L":
        es = args[0][1]
        if any(_text_kinds(x, y) for i, x in enumerate(es) for y in es[i + 1:]):
            return "text-kinds"
    if ar == 2:
        a, b = args
        if op in ("#", "_", ":+") and a[0] == "I" and b[0] in ("L", "S"):
            n, m = a[1], len(b[1])
            return ("neg" if n < 0 else "zero" if n == 0 else "pos") + ("-over" if abs(n) > m else "-exact" if abs(n) == m else "-within")
        if op == ":#" and a[0] == "I" and b[0] in ("L", "S") and a[1] > 0:
            return "divides" if len(b[1]) % a[1] == 0 else "remainder"
        if op == ":^" and b[0] in ("L", "S"):
            return "from-" + ("nested" if any(x[0] == "L" for x in (b[1] if b[0] == "L" else [])) else "flat")
        if op in ATOMIC2:
            if (a[0] == "L") != (b[0] == "L"):
                return "atom-extension"
            if _mixed_depth(a, b):
                return "mixed-depth"
        if op == "~" and _text_kinds(a, b):
            return "text-kinds"
        if op == "?" and a[0] == "L" and any(_text_kinds(x, b) for x in a[1]):
            return "text-kinds"
        if op == "," and _rank(a) >= 2 and _rank(b) >= 2 and _rank(a) != _rank(b):
            return "rank-differs"
    return "-"


def _walk(c):
    if isinstance(c, V.Check):
        yield ("free" if c.free else "check", None)
        return
    if c[0] == "L":
        yield ("L", len(c[1]))
        for x in c[1]:
            for y in _walk(x):
                yield y
    else:
        yield (c[0], None)


def _rows_of_nothing(c):
    """The operand holds a list made only of empty lists ([[] []]): the host keeps it as a numeric array of shape (n, 0)."""
    if c[0] != "L":
        return False
    if c[1] and all(x == ["L", []] for x in c[1]):
        return True
    return any(_rows_of_nothing(x) for x in c[1])


def _flags(args, want):
    """Representation limits of the host arrays that an application runs into (part of the mechanism key)."""
    kinds = set()
    for c in list(args) + [want]:
        for k, n in _walk(c):
            kinds.add(k)
    fl = []
    if "I" in kinds and ("R" in kinds or "check" in kinds or "free" in kinds):
        fl.append("int-with-real")
    if any(_rows_of_nothing(c) for c in args):
        fl.append("rows-of-nothing")
    return "+".join(fl) or "-"


def _diff(got, want, out):
    """Collect the kinds of difference between the interpreter's value and the reference tree."""
    if isinstance(want, V.Check):
        if not want.ok(got):
            out.add("not-accepted")
        return
    kw, kg = want[0], got[0]
    if kw == "L":
        if kg == "S" and want[1] and all((not isinstance(x, V.Check)) and x[0] == "C" for x in want[1]) and "".join(x[1] for x in want[1]) == got[1]:
            out.add("kind:chars-as-string")
        elif kg != "L" or len(got[1]) != len(want[1]):
            out.add("structure")
        else:
            for x, y in zip(got[1], want[1]):
                _diff(x, y, out)
        return
    if kw == "S" and kg == "L":
        out.add("kind:string-as-chars" if got[1] and all(x[0] == "C" for x in got[1]) and "".join(x[1] for x in got[1]) == want[1] else "structure")
        return
    if kw == "C" and kg == "S" and got[1] == want[1]:
        out.add("kind:char-as-string")
        return
    if kw == "Y" and kg == "S" and got[1] == want[1]:
        out.add("kind:symbol-as-string")
        return
    d = same(got, want, "exact")
    if d == "kind" and kw in ("I", "R") and kg in ("I", "R"):
        d = "kind:int-real"
    if d:
        out.add(d)


def run_case(ctx, case):
    k = ctx["k"]
    op, ar = case["verb"], case["ar"]
    table = V.MONADS if ar == 1 else V.DYADS
    name = (NAMES1 if ar == 1 else NAMES2)[op]
    res = {"counters": {}, "violations": [], "evaluations": len(case["items"])}
    cnt = res["counters"]
    distinct = 0
    indom = 0
    sigs = {}
    sample = None
    for args in case["items"]:
        try:
            want = table[op](*args)
        except RecursionError:
            continue
        if want is V.UNSPEC:
            cnt["outside_domain"] = cnt.get("outside_domain", 0) + 1
            continue
        try:
            text = (op + render(args[0])) if ar == 1 else (render(args[0]) + op + render(args[1]))
            if ar == 1 and op in ("-",) and text.startswith("--"):
                text = op + "(" + render(args[0]) + ")"
        except NotRenderable:
            continue
        r = kl.evc(k, text)
        indom += 1
        distinct += 1
        if sample is None:
            sample = {"expression": text, "result": brief(r[1]) if r[0] == "ok" else "raises " + r[1]}
        if r[0] != "ok" and any(k == "free" for k, _ in _walk(want)):
            cnt["outside_domain"] = cnt.get("outside_domain", 0) + 1        # an error where the reference leaves the point open
            indom -= 1
            distinct -= 1
            continue
        if r[0] != "ok":
            diff = "raises:" + r[1]
        else:
            out = set()
            _diff(r[1], want, out)
            diff = "+".join(sorted(out))
        if diff:
            sig = "%s/%d|%s|%s|%s|%s|%s" % (name, ar, shape_class(args[0]), shape_class(args[1]) if ar == 2 else "-", _relation(op, ar, args), _flags(args, want), diff)
            if sig not in sigs:
                sigs[sig] = {"sig": sig, "what": "%s %s; the reference prescribes %s" % (text, ("returned " + brief(r[1])) if r[0] == "ok" else ("raised " + r[1] + " " + r[2][:60]),
                                                                                       _show(want)),
                             "detail": {"expression": text}}
    res["violations"] = list(sigs.values())
    res["distinct_count"] = distinct
    cnt["in_domain:%s/%d" % (name, ar)] = indom
    res["show"] = sample or {"verb": name, "note": "no operand of this batch is in the verb's domain"}
    return res


def _show(want):
    if isinstance(want, V.Check):
        return "<" + want.text + ">"
    if want[0] == "L" and any(isinstance(x, V.Check) or x[0] == "L" for x in want[1]):
        return "[" + " ".join(_show(x) for x in want[1]) + "]"
    return brief(want)


def extra_coverage(tier, counters):
    per = {k[len("in_domain:"):]: v for k, v in counters.items() if k.startswith("in_domain:")}
    counters["verbs_with_100_in_domain"] = sum(1 for v in per.values() if v >= 100)
    return {"in_domain_comparisons_per_verb": per}
