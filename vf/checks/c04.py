"""C04 - evaluation depends only on program text and variable state; values are immutable.

Per statement of a generated history: (1) snapshot of interpreter A's variables before and
after: no variable other than the assigned one may change; (2) the same statement is run in a
fresh interpreter B rebuilt from the *canonical* pre-state only (data through the Python API,
functions from their definition texts) - result and post-state must agree with A's.
"""
import random

from vf.core import kl
from vf.core.canon import canon, same, shape_class, brief, I, R, S, Y, C, L
from vf.core.render import render

PROPERTY = "C04"
LEVEL = "exploration"
RULE = ("case = a history of 4-12 statements from the statement grammar (assignments, derived sub-lists, amend / amend-in-depth, "
        "function definitions and calls, adverb expressions, repeated texts, module switch, dictionary literal in a function); every "
        "statement is judged by the snapshot oracle (only the assigned variable may change) and by re-execution in a fresh interpreter "
        "rebuilt from the canonical pre-state. Distinct = distinct history text; non-trivial = at least one statement was compared in both.")
ASSUMPTIONS = ["the canonical snapshot (value + kind) of the user variables plus the function definition texts is the whole observable state",
               "dictionaries are rebuilt per variable (the generator creates no dictionary aliases here; aliasing is C10's subject)"]
MIN_COUNTS = {"quick": {"nontrivial": 800, "statements_compared": 6000, "repeated_text_evaluations": 500, "amend_of_derived_value": 300},
              "thorough": {"nontrivial": 15000, "statements_compared": 100000, "repeated_text_evaluations": 8000, "amend_of_derived_value": 5000}}
CASE_TIMEOUT = 120
MEM_LIMIT_GB = 6

NAMES = ["a", "b", "c", "d"]


SHAPES = [[-1, 2], [2, -1], [-1, 3], [2, 2], [3, -1], [1, 2], [2]]
# dyads whose LEFT operand is a control value (shape, count, positions): %(l)s is a variable or a literal, %(r)s a list variable
LEFT_DYADS = ["%(l)s:^%(r)s", "%(l)s#%(r)s", "%(l)s:#%(r)s", "%(l)s:_%(r)s", "%(l)s:+%(r)s", "%(r)s@%(l)s", "%(l)s_%(r)s", "%(l)s,%(r)s", "%(l)s?%(r)s", "%(l)s!%(r)s", "%(l)s+%(r)s"]


def _lit(rng):
    r = rng.random()
    if r < 0.06:
        return L([I(x) for x in rng.choice(SHAPES)])
    if r < 0.2:
        return L([I(rng.randint(-5, 9)) for _ in range(rng.randint(1, 5))])
    if r < 0.3:
        return L([R(rng.choice([0.5, 1.5, -2.25, 3.0])) for _ in range(rng.randint(1, 4))])
    if r < 0.42:
        rows, cols = rng.randint(2, 3), rng.randint(2, 3)
        return L([L([I(rng.randint(0, 9)) for _ in range(cols)]) for _ in range(rows)])
    if r < 0.52:
        return L([L([Y(rng.choice("pqrs")) for _ in range(2)]) for _ in range(2)])
    if r < 0.60:
        return L([L([S(rng.choice(["ab", "c", "xyz"])) for _ in range(2)]) for _ in range(2)])
    if r < 0.68:
        return L([I(1), L([I(2), L([I(3), I(4)])]), S("s")])
    if r < 0.74:
        return L([L([I(1), Y("k")]), L([S("v"), R(2.5)])])
    if r < 0.80:
        return S(rng.choice(["hello", "ab", "-----"]))
    if r < 0.86:
        return L([L([L([I(1), I(2)]), L([I(3), I(4)])]), L([L([I(5), I(6)]), L([I(7), I(8)])])])
    if r < 0.93:
        return I(rng.randint(-3, 9))
    return L([S("ab"), S("cd"), S("ef")])


def _new_val(rng):
    return rng.choice([I(99), I(0), R(7.5), Y("z"), S("new"), C("q"), L([I(7), I(8)])])


def _path(rng, c):
    """A valid index path into canonical list c down to some depth (list of ints)."""
    path = []
    cur = c
    while cur[0] == "L" and cur[1] and (not path or rng.random() < 0.8):
        i = rng.randrange(len(cur[1]))
        path.append(i)
        cur = cur[1][i]
    return path


def _gen_history(rng, n):
    """Returns list of statements: dict(text, assigns, kind, defs)"""
    st = []
    vals = {}        # name -> canonical guess (only to build valid indices; not an oracle)
    fns = {}
    def assign(name, text, kind, val=None):
        st.append({"text": "%s::%s" % (name, text), "assigns": [name], "kind": kind})
        if val is not None:
            vals[name] = val
        else:
            vals.pop(name, None)
    # start with two literals
    for nm in NAMES[:2]:
        v = _lit(rng)
        assign(nm, render(v), "literal", v)
    while len(st) < n:
        r = rng.random()
        have = [x for x in NAMES if x in vals]
        lists = [x for x in have if vals[x][0] == "L" and vals[x][1]]
        tgt = rng.choice(NAMES)
        if r < 0.12:
            v = _lit(rng)
            assign(tgt, render(v), "literal", v)
        elif r < 0.30 and lists:
            src = rng.choice(lists)
            form = rng.choice(["alias", "take", "drop", "reverse", "index", "indexlist", "join", "reshape", "first"])
            n0 = len(vals[src][1])
            if form == "alias":
                assign(tgt, src, "derive:alias", vals[src])
            elif form == "take":
                k = rng.randint(1, n0)
                assign(tgt, "%d#%s" % (k, src), "derive:take", L(vals[src][1][:k]))
            elif form == "drop":
                k = rng.randint(0, max(0, n0 - 1))
                assign(tgt, "%d_%s" % (k, src), "derive:drop", L(vals[src][1][k:]))
            elif form == "reverse":
                assign(tgt, "|%s" % src, "derive:reverse", L(list(reversed(vals[src][1]))))
            elif form == "index":
                i = rng.randrange(n0)
                assign(tgt, "%s@%d" % (src, i), "derive:index", vals[src][1][i])
            elif form == "indexlist":
                idx = [rng.randrange(n0) for _ in range(rng.randint(1, 3))]
                assign(tgt, "%s@[%s]" % (src, " ".join(map(str, idx))), "derive:indexlist", L([vals[src][1][i] for i in idx]))
            elif form == "join":
                assign(tgt, "%s,%s" % (src, src), "derive:join", L(vals[src][1] + vals[src][1]))
            elif form == "first":
                assign(tgt, "*%s" % src, "derive:first", vals[src][1][0])
            else:
                assign(tgt, "[%d 1]:^%s" % (n0, src), "derive:reshape", None)
        elif r < 0.55 and lists:
            src = rng.choice(lists)
            p = _path(rng, vals[src])
            nv = _new_val(rng)
            if len(p) == 1 or rng.random() < 0.35:
                # amend at top level (one or two positions)
                idxs = [p[0]] + ([rng.randrange(len(vals[src][1]))] if rng.random() < 0.3 else [])
                txt = "%s:=%s,%s" % (src, render(nv), ("[%s]" % " ".join(map(str, idxs))) if len(idxs) > 1 else str(idxs[0]))
                kind = "amend"
            else:
                txt = "%s:-%s,[%s]" % (src, render(nv), " ".join(map(str, p)))
                kind = "amend-in-depth"
            if rng.random() < 0.5:
                assign(tgt, txt, kind + ":assign", None)
            else:
                st.append({"text": txt, "assigns": [], "kind": kind + ":expr"})
        elif r < 0.62 and have:
            src = rng.choice(have)
            if vals[src][0] == "S":
                st.append({"text": '%s:=0cX,1' % src, "assigns": [], "kind": "amend:string"})
            else:
                st.append({"text": "#%s" % src, "assigns": [], "kind": "expr:size"})
        elif r < 0.72:
            fn = rng.choice(["f", "g", "h"])
            body = rng.choice(["{x,x}", "{|x}", "{x:=77,0}", "{[t];t::x;t::t:=55,0;t}", "{1_x}", "{:{[1 2]}}", "{[1 2 3]}", "{[[1 2] [3 4]]:-x,[0 1]}",
                               "{x@0}", "{(x@0),x}", "{_[2.5 3.5]}", "{_x}", "{-x}", "{[-1 2]:^x}", "{[2 -1]:^x}", "{[1 2]:#x}", "{[0 1]:_x}", "{[1 0]@x}"])
            st.append({"text": "%s::%s" % (fn, body), "assigns": [fn], "kind": "fndef", "def": (fn, body)})
            fns[fn] = body
        elif r < 0.84 and fns and have:
            fn = rng.choice(sorted(fns))
            src = rng.choice(have)
            call = "%s()" % fn if fns[fn] in ("{:{[1 2]}}", "{[1 2 3]}", "{_[2.5 3.5]}") else "%s(%s)" % (fn, src)
            if fns[fn] == "{:{[1 2]}}":
                # dictionary literal evaluated inside a function: mutate the result, call again
                st.append({"text": "d::%s" % call, "assigns": ["d"], "kind": "call:dictfn"})
                vals.pop("d", None)
                st.append({"text": "d,[3 4]", "assigns": ["d"], "kind": "dict:update"})
                st.append({"text": "#%s" % call, "assigns": [], "kind": "call:dictfn-size"})
            elif rng.random() < 0.5:
                assign(tgt, call, "call:assign", None)
            else:
                st.append({"text": call, "assigns": [], "kind": "call:expr"})
        elif r < 0.875 and lists:
            # a dyad whose left operand is a control value held in a variable (or a literal evaluated again later): neither operand may change
            src = rng.choice(lists)
            ctl = [x for x in have if vals[x][0] == "L" and vals[x][1] and all(e[0] == "I" for e in vals[x][1])]
            if ctl and rng.random() < 0.7:
                left = rng.choice(ctl)
            else:
                left = render(L([I(x) for x in rng.choice(SHAPES)])) if rng.random() < 0.7 else str(rng.randint(-3, 4))
            txt = rng.choice(LEFT_DYADS[:1] * 4 + LEFT_DYADS) % {"l": left, "r": src}
            if rng.random() < 0.4:
                assign(tgt, txt, "control-dyad:assign", None)
            else:
                st.append({"text": txt, "assigns": [], "kind": "control-dyad:expr"})
        elif r < 0.91 and lists:
            # every monad applied to a variable, to a view of it, and under Each: the operand must stay what it was
            src = rng.choice(lists)
            m = rng.choice(["_", "-", "%", "|", "?", "<", ">", "=", "#", "^", "~", ",", "*", "$", "+", "@", "&", "!", ":#"])
            n0 = len(vals[src][1])
            operand = rng.choice([src, src, "(%d#%s)" % (rng.randint(1, n0), src), "(1_%s)" % src, "(|%s)" % src, "(%s@%d)" % (src, rng.randrange(n0))])
            txt = rng.choice(["%s%s" % (m, operand), "%s%s" % (m, operand), "%s'%s" % (m, src)])
            if rng.random() < 0.3:
                assign(tgt, txt, "monad:assign", None)
            else:
                st.append({"text": txt, "assigns": [], "kind": "monad:expr"})
        elif r < 0.95 and lists:
            src = rng.choice(lists)
            e = rng.choice(["+/%s", "{x}'%s", "%s+%s", ",/%s", "{x,x}'%s", "|/%s", "#'%s", "%s=%s", "&/%s", "+\\%s", "-%s"])
            st.append({"text": e.replace("%s", src), "assigns": [], "kind": "adverb-or-arith"})
        else:
            if st:
                prev = rng.choice(st[-4:])
                if prev["kind"] != "fndef":
                    st.append(dict(prev, kind="repeat:" + prev["kind"], repeat=True))
    return st


def cases(tier, seed):
    rng = random.Random(4000 + seed)
    n = 3000 if tier == "quick" else 40000
    out = []
    for i in range(n):
        out.append({"history": _gen_history(rng, rng.randint(5, 14)), "module": (i % 9 == 0)})
    return out


def init_shard(tier, seed):
    from vf.checks.c05 import Switch
    sw = Switch()
    sw.install()
    return {}


def _idents(text):
    import re
    return set(re.findall(r"[a-z]+", text))


def _snap(k):
    return kl.user_vars(k)


def _build_twin(snapshot, defs, module):
    k = kl.new()
    k._vf_c = {}
    if module:
        kl.ev(k, ".module(:m)")
    for name, (c, tag) in snapshot.items():
        base = name.split("`")[0]
        if name in ("x", "y", "z") and module:
            continue
        if c[0] == "F":
            if base in defs:
                kl.ev(k, "%s::%s" % (base, defs[base]))
            continue
        try:
            v = kl.topy(c, k)
        except ValueError:
            continue
        if module and "`" in name:
            # assign through Klong so the name gets the module qualification the reader gives it
            k["vfTMP`m"] = v
            kl.ev(k, "%s::vfTMP" % base)
        else:
            k[name] = v
    return k


def _snap_clean(s):
    return {n: v for n, v in s.items() if not n.startswith("vfTMP") and n not in ("x", "y", "z")}


def _state_diff(sa, sb, mode="exact"):
    out = []
    for n in sorted(set(sa) | set(sb)):
        if n.startswith("vfTMP"):
            continue
        if n not in sa or n not in sb:
            out.append((n, "missing-in-" + ("A" if n not in sa else "B")))
            continue
        d = same(sa[n][0], sb[n][0], mode)
        if d:
            out.append((n, d))
    return out


def run_case(ctx, case):
    hist, module = case["history"], case["module"]
    res = {"nontrivial": False, "counters": {}, "violations": []}
    text = "; ".join(s["text"] for s in hist)
    res["key"] = ("m:" if module else "") + text
    res["show"] = {"history": [s["text"] for s in hist], "module": module}
    A = kl.new()
    A._vf_c = {}
    if module:
        kl.ev(A, ".module(:m)")
    defs = {}
    seen_texts = set()
    cnt = res["counters"]
    for i, s in enumerate(hist):
        if kl.state_size(A, 20000) > 20000:
            # repeated joins / takes grew a variable beyond what a history needs; comparing such values costs minutes and adds nothing
            cnt["histories_cut_oversized"] = 1
            break
        pre = _snap_clean(_snap(A))
        B = _build_twin(pre, defs, module)
        # self-check: the twin's state must equal A's pre-state, otherwise the statement is not judged
        if _state_diff(pre, _snap_clean(_snap(B))):
            cnt["twin_rebuild_skipped"] = cnt.get("twin_rebuild_skipped", 0) + 1
            ra = kl.ev(A, s["text"])
            if "def" in s:
                defs[s["def"][0]] = s["def"][1]
            continue
        pre_b = _snap_clean(_snap(B))
        ra = kl.ev(A, s["text"])
        if kl.state_size(A, 20000) > 20000 or (ra[0] == "ok" and kl.value_size(ra[1], 20000) > 20000):
            cnt["histories_cut_oversized"] = 1
            break
        rb = kl.ev(B, s["text"])
        post_a, post_b = _snap_clean(_snap(A)), _snap_clean(_snap(B))
        if "def" in s:
            defs[s["def"][0]] = s["def"][1]
        cnt["statements_compared"] = cnt.get("statements_compared", 0) + 1
        cnt["kind:" + s["kind"].split(":")[0]] = cnt.get("kind:" + s["kind"].split(":")[0], 0) + 1
        if s["text"] in seen_texts:
            cnt["repeated_text_evaluations"] = cnt.get("repeated_text_evaluations", 0) + 1
        seen_texts.add(s["text"])
        if s["kind"].startswith(("amend", "repeat:amend")):
            cnt["amend_of_derived_value"] = cnt.get("amend_of_derived_value", 0) + 1
        res["nontrivial"] = True
        viol = None
        # (1) only the assigned variable may change in A
        assigned = set(s["assigns"])
        for n in sorted(pre):
            base = n.split("`")[0]
            if base in assigned:
                continue
            if n not in post_a:
                viol = ("mutated-other", "variable %s disappeared" % n, n)
                break
            d = same(pre[n][0], post_a[n][0], "exact")
            if d and pre[n][0][0] != "D":
                viol = ("mutated-other", "variable %s changed from %s to %s (%s)" % (n, brief(pre[n][0]), brief(post_a[n][0]), d), n)
                break
            if d and pre[n][0][0] == "D" and s["kind"] not in ("dict:update",):
                viol = ("mutated-other", "dictionary %s changed by a non-dictionary statement" % n, n)
                break
        # (2) result and post-state equal the fresh twin's
        if viol is None:
            if ra[0] != rb[0]:
                viol = ("result", "A %s vs fresh twin %s" % (ra[0] + ":" + (ra[1] if ra[0] == "err" else brief(canon(ra[1]))),
                                                               rb[0] + ":" + (rb[1] if rb[0] == "err" else brief(canon(rb[1])))), None)
            elif ra[0] == "ok":
                d = same(canon(ra[1]), canon(rb[1]), "exact")
                if d:
                    viol = ("result", "A returned %s, fresh twin %s (%s)" % (brief(canon(ra[1])), brief(canon(rb[1])), d), None)
        if viol is None:
            sd = _state_diff(post_a, post_b)
            if sd:
                n, d = sd[0]
                viol = ("state", "after the statement variable %s is %s in A and %s in the fresh twin (%s)" % (
                    n, brief(post_a[n][0]) if n in post_a else "-", brief(post_b[n][0]) if n in post_b else "-", d), n)
        if viol:
            kind = s["kind"].replace("repeat:", "")
            prov = "repeat" if s.get("repeat") else "first"
            if kind.startswith("call"):
                called = [defs.get(fn, "") for fn in ("f", "g", "h") if (fn + "(") in s["text"]]
                if any(":=" in b or ":-" in b for b in called):
                    kind = "amend-via-" + kind
            # hidden representation: same canonical value, different array dtype in A and in the rebuilt twin
            reps = sorted({"%s/%s" % (pre[n][1].split(":", 1)[-1], pre_b[n][1].split(":", 1)[-1]) for n in pre
                           if n in pre_b and pre[n][1] != pre_b[n][1] and n.split("`")[0] in _idents(s["text"])})
            sig = "%s|%s|%s|%s" % (kind, viol[0], prov, "repr:" + ",".join(reps) if reps else "same-repr")
            res["violations"].append({"sig": sig, "what": "statement #%d `%s`: %s" % (i, s["text"], viol[1]),
                                      "detail": {"history": [x["text"] for x in hist[: i + 1]], "module": module}})
            break
    return res
