"""C09 - the interpreter is a faithful dictionary of Python values and functions.

Three monitors over generated histories against the real KlongInterpreter:
 A  store/read-back: klong[n]=v ; klong[n] ; program text n
 B  instrumented Python callables (call log: exactly-once, positional arguments, result)
    in every call form (direct, projections, each, over, each-pair, @)
 C  Klong functions through the Python wrapper klong[name](*args) vs the Klong call text,
    across redefinition / deletion histories and wrong argument counts
"""
import itertools
import random

from vf.core import kl
from vf.core.canon import canon, same, brief, I, R, S, C, Y, L, shape_class
from vf.core.render import render
from vf.core import universe as U

PROPERTY = "C09"
LEVEL = "exploration"
RULE = ("case = one history: (A) a value stored through the Python API and read back three ways; (B) an instrumented Python callable of arity 0..3 "
        "(with/without leading klong) applied in one call form to universe arguments, its call log compared with the expected call sequence; "
        "(C) a Klong function of arity 0..3 called through klong[name](*args) along a redefinition/deletion history and compared with the Klong call text. "
        "Distinct = distinct history; non-trivial = the monitor compared at least one observation.")
ASSUMPTIONS = ["Python callables use parameter names x,y,z as a prefix (optionally preceded by klong), as the statement covers",
               "calling a wrapper while its name is deleted is unspecified (executed, not judged); calls after a later redefinition are judged"]
MIN_COUNTS = {"quick": {"nontrivial": 2500, "python_calls_logged": 1200, "wrapper_calls_compared": 2000, "values_read_back": 400},
              "thorough": {"nontrivial": 30000, "python_calls_logged": 9000, "wrapper_calls_compared": 30000, "values_read_back": 3000}}
CASE_TIMEOUT = 60
MEM_LIMIT_GB = 6

ARGS = [I(3), I(0), I(-2), R(2.5), S("ab"), S(""), C("c"), Y("s"), L([I(1), I(2), I(3)]), L([]), L([R(1.5), R(2.0)]), L([L([I(1)]), L([I(2), I(3)])]),
        L([S("p"), S("q")]), L([I(1), S("a")])]
NUMS = [I(3), I(0), I(-2), I(7), I(10)]
FORMS1 = ["direct", "at", "each", "var", "nested"]
FORMS2 = ["direct", "proj_x", "proj_y", "over", "eachpair", "each2", "var"]
FORMS3 = ["direct", "proj_x", "proj_y", "proj_z", "proj_xy", "proj_yz", "proj_xz", "two_step"]


def cases(tier, seed):
    rng = random.Random(9000 + seed)
    out = []
    # A: values
    vals = U.universe(with_dicts=True) + [U.rand_value(rng, 2) for _ in range(400 if tier == "quick" else 4000)]
    for v in vals:
        out.append({"t": "A", "value": v, "how": rng.choice(["klong", "python"])})
    # B: python callables
    nb = 4 if tier == "quick" else 30
    for rep in range(nb):
        for with_klong in (False, True):
            for a in ARGS:
                for f in FORMS1:
                    out.append({"t": "B", "arity": 1, "klong": with_klong, "form": f, "args": [a]})
            for f in FORMS2:
                pool = NUMS if f in ("over", "eachpair") else ARGS
                for _ in range(8):
                    out.append({"t": "B", "arity": 2, "klong": with_klong, "form": f, "args": [rng.choice(pool), rng.choice(pool)],
                                "list": [rng.choice(NUMS) for _ in range(rng.randint(0, 5))]})
            for f in FORMS3:
                for _ in range(5):
                    out.append({"t": "B", "arity": 3, "klong": with_klong, "form": f, "args": [rng.choice(ARGS) for _ in range(3)]})
            # parameters declared in another order than x,y,z: arguments are still passed by position
            for f in FORMS2:
                pool = NUMS if f in ("over", "eachpair") else ARGS
                for _ in range(3):
                    out.append({"t": "B", "arity": 2, "klong": with_klong, "form": f, "args": [rng.choice(pool), rng.choice(pool)], "names": ["y", "x"],
                                "list": [rng.choice(NUMS) for _ in range(rng.randint(0, 5))]})
            # decorated callables (functools.wraps keeps the signature of the wrapped function reachable through __wrapped__)
            for deco in ("wraps", "lru"):
                for f in FORMS1:
                    out.append({"t": "B", "arity": 1, "klong": with_klong, "form": f, "args": [rng.choice(ARGS)], "deco": deco})
                for f in FORMS2:
                    pool = NUMS if f in ("over", "eachpair") else ARGS
                    out.append({"t": "B", "arity": 2, "klong": with_klong, "form": f, "args": [rng.choice(pool), rng.choice(pool)], "deco": deco,
                                "list": [rng.choice(NUMS) for _ in range(rng.randint(0, 5))]})
                for f in FORMS3[:3]:
                    out.append({"t": "B", "arity": 3, "klong": with_klong, "form": f, "args": [rng.choice(ARGS) for _ in range(3)], "deco": deco})
            for f in FORMS3:
                for names in (["z", "y", "x"], ["x", "z", "y"], ["y", "z", "x"]):
                    out.append({"t": "B", "arity": 3, "klong": with_klong, "form": f, "args": [rng.choice(ARGS) for _ in range(3)], "names": names})
            out.append({"t": "B", "arity": 0, "klong": with_klong, "form": "direct", "args": []})
    # C: wrapper histories
    nc = 2500 if tier == "quick" else 40000
    WIDE = [I(3), S("ab"), L([I(1), S("a")]), L([L([I(1)]), L([I(2), I(3)])]), L([]), L([S("ab"), S("c")]), L([I(1), L([I(2), S("x")])]), R(1.5), L([R(0.5), I(2)]), L([I(1), I(2)])]
    for _ in range(nc):
        steps = []
        join = rng.random() < 0.3       # structural bodies (join) take any argument: mixed, ragged and nested lists cross the boundary
        narrow = [I(3), I(0), R(1.5), L([I(1), I(2)]), I(-4)]
        ar = rng.randint(0, 3)
        steps.append(["def", ar, rng.randint(1, 9)])
        n = rng.randint(3, 9)
        for _ in range(n):
            r = rng.random()
            if r < 0.2:
                steps.append(["wrap"])
            elif r < 0.35:
                steps.append(["def", ar if rng.random() < 0.6 else rng.randint(0, 3), rng.randint(10, 99)])
            elif r < 0.45:
                steps.append(["del"])
            elif r < 0.85:
                k = rng.choice([None, None, None, -1, 1])
                steps.append(["call", k, [rng.choice(WIDE if join else narrow) for _ in range(4)]])
            else:
                steps.append(["callfresh", [rng.choice(WIDE if join else [I(3), I(5), L([I(1), I(2)])]) for _ in range(4)]])
        out.append({"t": "C", "steps": steps, "join": join})
    return out


def init_shard(tier, seed):
    return {}


# ------------------------------------------------------------------ A

def _run_A(case, res):
    k = kl.new()
    c = case["value"]
    try:
        v = kl.topy(c, k)
    except ValueError:
        return
    if case["how"] == "python" and c[0] == "L":
        # a plain Python list as a user would pass it
        def tolist(c):
            return [tolist(x) for x in c[1]] if c[0] == "L" else kl.topy(c, k)
        v = tolist(c)
    k["vv"] = v
    back = k["vv"]
    res["counters"]["values_read_back"] = 1
    res["nontrivial"] = True
    d = same(canon(back), c, "match")
    if d:
        res["violations"].append({"sig": "store-readback|%s|%s" % (shape_class(c), d), "what": "klong['vv']=%s read back as %s" % (brief(c), brief(canon(back))), "detail": {}})
        return
    r = kl.ev(k, "vv")
    if r[0] != "ok" or same(canon(r[1]), c, "match"):
        res["violations"].append({"sig": "store-program-view|%s" % shape_class(c), "what": "program `vv` sees %s for stored %s" % (r[1] if r[0] != "ok" else brief(canon(r[1])), brief(c)), "detail": {}})
        return
    if c[0] != "D":
        r = kl.ev(k, "ww::vv;ww")
        if r[0] != "ok" or same(canon(k["ww"]), c, "match"):
            res["violations"].append({"sig": "store-copy|%s" % shape_class(c), "what": "ww::vv gives %s for stored %s" % (brief(canon(k['ww'])) if r[0] == "ok" else r[1], brief(c)), "detail": {}})


# ------------------------------------------------------------------ B

def _pure(arity):
    """Deterministic pure results so that folds are predictable (works on numbers only where needed)."""
    if arity == 0:
        return lambda: 42
    if arity == 1:
        return lambda x: ("r1", x)
    if arity == 2:
        return lambda x, y: ("r2", x, y)
    return lambda x, y, z: ("r3", x, y, z)


def _mkfn(arity, with_klong, log, numeric, names=None, deco=None):
    """A Python callable that logs its positional arguments.  `names` are its parameter names: the canonical x,y,z or a
    permutation of them (the first Klong argument goes to the first declared parameter whatever it is called)."""
    def ret(*a):
        if numeric:
            if arity == 1:
                return a[0] + 100
            if arity == 2:
                return a[0] * 10 + a[1]
        return 1000 + len(log)
    names = list(names or ["x", "y", "z"][:arity])
    params = (["klong"] if with_klong else []) + names
    src = "def f(%s):\n    log.append((%s))\n    return ret(%s)\n" % (", ".join(params), "".join(n + ", " for n in names), ", ".join(names))
    ns = {"log": log, "ret": ret}
    exec(src, ns)
    f = ns["f"]
    if deco == "wraps":
        import functools

        @functools.wraps(f)
        def wrapper(*a, **kw):
            return f(*a, **kw)
        return wrapper
    if deco == "lru":
        import functools
        inner = f

        @functools.wraps(inner)
        def counted(*a, **kw):
            return inner(*a, **kw)
        return counted if with_klong else functools.wraps(inner)(lambda *a, **kw: inner(*a, **kw))
    return f


def _run_B(case, res):
    k = kl.new()
    ar, form, args = case["arity"], case["form"], case["args"]
    numeric = form in ("over", "eachpair")
    log = []
    k["pf"] = _mkfn(ar, case["klong"], log, numeric, case.get("names"), case.get("deco"))
    A = [render(a) for a in args]
    lst = case.get("list")
    exp_calls = None
    exp_result = "last-return"
    if ar == 0:
        text, exp_calls = "pf()", [[]]
    elif ar == 1:
        a = args[0]
        if form == "direct":
            text, exp_calls = "pf(%s)" % A[0], [[a]]
        elif form == "at":
            # f@b: an atom b is the argument; a list b supplies the argument list (not judged for a monad)
            text, exp_calls = "pf@%s" % A[0], ([[a]] if a[0] != "L" else None)
        elif form == "var":
            text, exp_calls = "g::pf;g(%s)" % A[0], [[a]]
        elif form == "nested":
            text, exp_calls = "pf(pf(%s))" % A[0], None
        else:
            text = "pf'%s" % A[0]
            if a[0] == "L":
                exp_calls = [[x] for x in a[1]]
                exp_result = "list-of-returns"
            elif a[0] == "S" and a[1]:
                exp_calls = [[C(ch)] for ch in a[1]]
                exp_result = "list-of-returns"
            elif a[0] in ("I", "R", "C", "Y"):
                exp_calls = [[a]]
            else:
                exp_calls = None if a[0] == "S" else [[a]]
                if a[0] == "S":
                    exp_calls = []
                    exp_result = "any"
    elif ar == 2:
        a, b = args
        if form == "direct":
            text, exp_calls = "pf(%s;%s)" % (A[0], A[1]), [[a, b]]
        elif form == "var":
            text, exp_calls = "g::pf;g(%s;%s)" % (A[0], A[1]), [[a, b]]
        elif form == "proj_x":
            text, exp_calls = "p::pf(%s;);p(%s)" % (A[0], A[1]), [[a, b]]
        elif form == "proj_y":
            text, exp_calls = "p::pf(;%s);p(%s)" % (A[1], A[0]), [[a, b]]
        elif form == "each2":
            text, exp_calls = "%s pf'%s" % (A[0], A[1]), None
            if a[0] in ("I", "R", "C", "Y") and b[0] in ("I", "R", "C", "Y"):
                exp_calls = [[a, b]]
            elif a[0] == "L" and b[0] == "L":
                n = min(len(a[1]), len(b[1]))
                exp_calls = [[a[1][i], b[1][i]] for i in range(n)]
                exp_result = "list-of-returns"
        elif form == "over":
            text = "pf/%s" % render(L(lst))
            if len(lst) >= 2:
                exp_calls, acc = [], lst[0]
                for x in lst[1:]:
                    exp_calls.append([acc, x])
                    acc = I(acc[1] * 10 + x[1])
            else:
                exp_calls = []
                exp_result = "any"
        else:  # eachpair
            text = "pf:'%s" % render(L(lst))
            if len(lst) >= 2:
                exp_calls = [[lst[i], lst[i + 1]] for i in range(len(lst) - 1)]
                exp_result = "list-of-returns"
            else:
                exp_calls = []
                exp_result = "any"
    else:
        a, b, c = args
        full = [[a, b, c]]
        if form == "direct":
            text, exp_calls = "pf(%s;%s;%s)" % tuple(A), full
        elif form == "proj_x":
            text, exp_calls = "p::pf(%s;;);p(%s;%s)" % (A[0], A[1], A[2]), full
        elif form == "proj_y":
            text, exp_calls = "p::pf(;%s;);p(%s;%s)" % (A[1], A[0], A[2]), full
        elif form == "proj_z":
            text, exp_calls = "p::pf(;;%s);p(%s;%s)" % (A[2], A[0], A[1]), full
        elif form == "proj_xy":
            text, exp_calls = "p::pf(%s;%s;);p(%s)" % (A[0], A[1], A[2]), full
        elif form == "proj_yz":
            text, exp_calls = "p::pf(;%s;%s);p(%s)" % (A[1], A[2], A[0]), full
        elif form == "proj_xz":
            text, exp_calls = "p::pf(%s;;%s);p(%s)" % (A[0], A[2], A[1]), full
        else:
            text, exp_calls = "p::pf(%s;;);q::p(%s;);q(%s)" % (A[0], A[1], A[2]), full
    r = kl.ev(k, text)
    res["show"] = {"text": text, "python_fn": "arity %d%s%s" % (ar, " +klong" if case["klong"] else "", " params " + ",".join(case["names"]) if case.get("names") else ""), "calls_logged": len(log)}
    res["counters"]["python_calls_logged"] = len(log)
    res["counters"]["form:" + form] = 1
    sigbase = "pycall|arity%d|%s%s|%s" % (ar, "klong" if case["klong"] else "plain", ("|params:" + "".join(case["names"]) if case.get("names") else "") + ("|decorated:" + case["deco"] if case.get("deco") else ""), form)
    if exp_calls is None:
        return
    res["nontrivial"] = True
    if r[0] != "ok":
        res["violations"].append({"sig": sigbase + "|raises:" + r[1], "what": "%s raised %s: %s" % (text, r[1], r[2]), "detail": res["show"]})
        return
    got_calls = [[canon(x) for x in call] for call in log]
    if len(got_calls) != len(exp_calls):
        res["violations"].append({"sig": sigbase + "|call-count", "what": "%s: callable invoked %d times, expected %d" % (text, len(got_calls), len(exp_calls)), "detail": res["show"]})
        return
    for i, (g, e) in enumerate(zip(got_calls, exp_calls)):
        for j, (x, y) in enumerate(zip(g, e)):
            if same(x, y, "match"):
                res["violations"].append({"sig": sigbase + "|argument", "what": "%s: call #%d argument %d is %s, expected %s" % (text, i, j, brief(x), brief(y)), "detail": res["show"]})
                return
    if exp_result == "last-return" and exp_calls:
        want = (1000 + len(exp_calls)) if not numeric else None
        if numeric:
            x, y = exp_calls[-1]
            want = x[1] * 10 + y[1]
        if same(canon(r[1]), I(want), "match"):
            res["violations"].append({"sig": sigbase + "|result", "what": "%s returned %s, the callable returned %s" % (text, brief(canon(r[1])), want), "detail": res["show"]})
    elif exp_result == "list-of-returns" and exp_calls:
        if numeric:
            want = L([I(x[1] * 10 + y[1]) for x, y in exp_calls])
        else:
            want = L([I(1001 + i) for i in range(len(exp_calls))])
        if same(canon(r[1]), want, "match"):
            res["violations"].append({"sig": sigbase + "|result", "what": "%s returned %s, the callable returned %s" % (text, brief(canon(r[1])), brief(want)), "detail": res["show"]})


# ------------------------------------------------------------------ C

def _body(ar, n, join=False):
    if join:
        return {0: "{,%d}" % n, 1: "{(,x),%d}" % n, 2: "{(,x),(,y),%d}" % n, 3: "{(,x),(,y),(,z),%d}" % n}[ar]
    return {0: "{%d}" % n, 1: "{x+%d}" % n, 2: "{(x*10)+y+%d}" % n, 3: "{(x*100)+(y*10)+z+%d}" % n}[ar]


def _pyval(c):
    """Plain Python value for a canonical one (nested lists stay Python lists: the wrapper converts them)."""
    if c[0] == "L":
        return [_pyval(x) for x in c[1]]
    return c[1]


def _run_C(case, res):
    k = kl.new()
    cur = None            # (arity, n) or None when deleted
    wrappers = []         # (wrapper, definition at creation)
    hist = []
    cmpn = 0
    for st in case["steps"]:
        if st[0] == "def":
            txt = "kf::%s" % _body(st[1], st[2], case.get("join", False))
            hist.append(txt)
            kl.ev(k, txt)
            cur = (st[1], st[2])
        elif st[0] == "del":
            if cur is not None:
                hist.append("del klong['kf']")
                try:
                    del k["kf"]
                except KeyError:
                    pass
                cur = None
        elif st[0] == "wrap":
            if cur is not None:
                hist.append("w%d = klong['kf']" % len(wrappers))
                wrappers.append((k["kf"], cur))
        elif st[0] in ("call", "callfresh"):
            if st[0] == "callfresh":
                if cur is None:
                    continue
                w, made, off, argsc = k["kf"], cur, None, st[1]
                wname = "klong['kf']"
            else:
                if not wrappers:
                    continue
                wi = len(wrappers) - 1
                w, made = wrappers[wi]
                off, argsc = st[1], st[2]
                wname = "w%d" % wi
            target = cur
            if target is None:
                # unspecified: executed, not judged
                nargs = made[0]
                pyargs = [kl.topy(a, k) if a[0] != "L" else _pyval(a) for a in argsc[:nargs]]
                hist.append("%s(%s)  # name deleted: not judged" % (wname, ",".join(brief(a) for a in argsc[:nargs])))
                try:
                    w(*pyargs)
                except Exception:
                    pass
                continue
            nargs = target[0] + (off or 0)
            if nargs < 0 or nargs > 4:
                nargs = target[0]
                off = None
            use = argsc[:nargs]
            pyargs = [kl.topy(a, k) if a[0] != "L" else _pyval(a) for a in use]
            hist.append("%s(%s)" % (wname, ",".join(brief(a) for a in use)))
            try:
                got = ("ok", w(*pyargs))
            except Exception as e:
                got = ("err", type(e).__name__)
            cmpn += 1
            if nargs != target[0]:
                if got[0] == "ok":
                    res["violations"].append({"sig": "wrapper|wrong-arg-count-accepted|arity%d|given%d" % (target[0], nargs),
                                              "what": "wrapper of a %d-ary function accepted %d arguments and returned %s" % (target[0], nargs, brief(canon(got[1]))), "detail": {"history": hist}})
                    break
                continue
            text = "kf(%s)" % ";".join(render(a) for a in use)
            want = kl.ev(k, text)
            if want[0] != got[0]:
                res["violations"].append({"sig": "wrapper|outcome|%s" % ("after-redefinition" if made != target else "same-definition"),
                                          "what": "%s -> %s but Klong %s -> %s" % (hist[-1], got, text, want[:2]), "detail": {"history": hist}})
                break
            if got[0] == "ok":
                d = same(canon(got[1]), canon(want[1]), "match")
                if d:
                    res["violations"].append({"sig": "wrapper|result|%s" % ("after-redefinition" if made != target else "same-definition"),
                                              "what": "%s returned %s but Klong %s returns %s" % (hist[-1], brief(canon(got[1])), text, brief(canon(want[1]))), "detail": {"history": hist}})
                    break
    res["counters"]["wrapper_calls_compared"] = cmpn
    res["nontrivial"] = cmpn > 0
    res["show"] = {"history": hist}


def run_case(ctx, case):
    res = {"nontrivial": False, "counters": {}, "violations": [], "key": repr(case)}
    {"A": _run_A, "B": _run_B, "C": _run_C}[case["t"]](case, res)
    return res
