"""C10 - a dictionary behaves as a finite map under any sequence of operations.

Model-based history check: a Python dict (canonical keys) is driven by the same operation
sequence as the real interpreter; every operation's Klong-level result is compared.
"""
import random

from vf.core import kl
from vf.core.canon import canon, same, brief, I, R, C, S, Y, L, D
from vf.core.render import render

PROPERTY = "C10"
LEVEL = "exploration"
RULE = ("case = sequence of 4-12 dictionary operations (literal, d,[k v], [k v],d, d?k, k_d, #d, f'd, alias e::d, literal re-evaluated inside "
        "a function) over keys of every hashable kind; each operation's result is compared with a Python-dict model (f'd as a multiset). "
        "Distinct = distinct operation-sequence text; non-trivial = at least one lookup/size/each was compared after an update.")
ASSUMPTIONS = ["key universe avoids Python-level collisions the reference does not speak about (1 vs 1.0, 0cx vs \"x\")",
               "d@k on dictionaries is not defined by the reference and is only counted, not judged"]
MIN_COUNTS = {"quick": {"nontrivial": 1500, "lookups_compared": 5000, "alias_updates": 300, "literal_in_function_calls": 300},
              "thorough": {"nontrivial": 30000, "lookups_compared": 100000, "alias_updates": 6000, "literal_in_function_calls": 6000}}
CASE_TIMEOUT = 60
MEM_LIMIT_GB = 6

KEYS = [I(0), I(1), I(2), I(-1), I(7), R(0.5), R(2.5), C("x"), C("y"), S("a"), S("bc"), S(""), Y("a"), Y("k")]
VALS = [I(0), I(5), R(1.5), S(""), S("str"), C("c"), Y("v"), L([]), L([I(1), I(2)]), L([S("p"), I(1)]), I(-3), L([L([I(1)]), I(2)])]


def _kind(c):
    return {"I": "int", "R": "real", "C": "char", "S": "str", "Y": "sym"}[c[0]]


def _gen(rng, n):
    ops = []
    init = rng.sample(KEYS, rng.randint(0, 3))
    ops.append(["lit", "d", [[k, rng.choice(VALS)] for k in init]])
    names = ["d"]
    present = list(init)
    while len(ops) < n:
        r = rng.random()
        v = rng.choice(names)
        k = rng.choice(present) if (present and rng.random() < 0.6) else rng.choice(KEYS)
        if r < 0.36 and k not in present:
            present.append(k)
        if r < 0.22:
            ops.append(["addR", v, k, rng.choice(VALS)])
        elif r < 0.36:
            ops.append(["addL", v, k, rng.choice(VALS)])
        elif r < 0.58:
            # the key as a literal, computed, taken from a list, or held in a variable: the same key either way
            ops.append(["find", v, k, rng.choice(["lit", "lit", "computed", "elem", "var"])])
        elif r < 0.68:
            ops.append(["remove", v, k])
        elif r < 0.76:
            ops.append(["size", v])
        elif r < 0.82:
            ops.append(["each", v])
        elif r < 0.88:
            new = rng.choice(["e", "g"])
            ops.append(["alias", new, v])
            if new not in names:
                names.append(new)
        elif r < 0.94:
            items = [[kk, rng.choice(VALS)] for kk in rng.sample(KEYS, rng.randint(0, 2))]
            ops.append(["fnlit", rng.choice(["p", "q"]), items])
        else:
            ops.append(["index", v, k])
    return ops


def cases(tier, seed):
    rng = random.Random(10000 + seed)
    n = 3000 if tier == "quick" else 60000
    return [{"ops": _gen(rng, rng.randint(4, 12))} for _ in range(n)]


def init_shard(tier, seed):
    return {}


def _key_text(key, form):
    """Source text that evaluates to the key: literal, computed, an element of a list, or through a variable."""
    lit = render(key)
    if form == "computed":
        if key[0] == "I":
            return "(%d+%d)" % (key[1] - 1, 1) if key[1] >= 1 else "((%d)+1)" % (key[1] - 1)
        if key[0] == "R":
            return "(%r%%2)" % (key[1] * 2) if key[1] * 2 == int(key[1] * 2) else "(%r+0.0)" % key[1]
        if key[0] == "S" and len(key[1]) >= 2:
            return "(%s,%s)" % (render(["S", key[1][:1]]), render(["S", key[1][1:]]))
        return "(%s)" % lit
    if form == "elem":
        inl = render(key, True)
        if key[0] in ("I", "R"):
            return "([%s %s]@1)" % ("9.25" if key[0] == "R" else "99", inl)
        return "([%s %s]@0)" % (inl, inl)
    if form == "var":
        return "{[vfk];vfk::%s;vfk}()" % lit
    return lit


def _lit(items):
    return ":{" + " ".join("[%s %s]" % (render(k, True), render(v, True)) for k, v in items) + "}"


def _pair(k, v):
    return "[%s %s]" % (render(k, True), render(v, True))


def _dict_canon(m):
    return D([(k, v) for k, v in m.values()])


def run_case(ctx, case):
    ops = case["ops"]
    res = {"nontrivial": False, "counters": {}, "violations": []}
    cnt = res["counters"]
    k = kl.new()
    models = {}          # dict id -> {repr(key): (key, value)}
    var = {}             # variable -> dict id
    fn_items = None
    texts = []
    updated = False

    def bad(i, op, what, form, diff):
        kk = op[2] if len(op) > 2 and isinstance(op[2], list) and op[2] and isinstance(op[2][0], str) else None
        keyk = _kind(kk) if kk else "-"
        res["violations"].append({"sig": "%s|key:%s|%s" % (form, keyk, diff), "what": "op #%d %s: %s" % (i, texts[-1], what),
                                  "detail": {"history": list(texts)}})

    for i, op in enumerate(ops):
        t = op[0]
        if t == "lit":
            txt = "%s::%s" % (op[1], _lit(op[2]))
            texts.append(txt)
            r = kl.ev(k, txt)
            did = len(models)
            models[did] = {repr(a): (a, b) for a, b in op[2]}
            var[op[1]] = did
            exp = _dict_canon(models[did])
        elif t in ("addR", "addL"):
            txt = ("%s,%s" % (op[1], _pair(op[2], op[3]))) if t == "addR" else ("%s,%s" % (_pair(op[2], op[3]), op[1]))
            texts.append(txt)
            r = kl.ev(k, txt)
            m = models[var[op[1]]]
            m[repr(op[2])] = (op[2], op[3])
            exp = _dict_canon(m)
            updated = True
            if sum(1 for x in var.values() if x == var[op[1]]) > 1:
                cnt["alias_updates"] = cnt.get("alias_updates", 0) + 1
        elif t == "find":
            txt = "%s?%s" % (op[1], _key_text(op[2], op[3] if len(op) > 3 else "lit"))
            cnt["lookup_key_form:" + (op[3] if len(op) > 3 else "lit")] = cnt.get("lookup_key_form:" + (op[3] if len(op) > 3 else "lit"), 0) + 1
            texts.append(txt)
            r = kl.ev(k, txt)
            m = models[var[op[1]]]
            exp = m[repr(op[2])][1] if repr(op[2]) in m else ["U"]
            cnt["lookups_compared"] = cnt.get("lookups_compared", 0) + 1
            cnt["lookup_" + ("hit" if repr(op[2]) in m else "miss")] = cnt.get("lookup_" + ("hit" if repr(op[2]) in m else "miss"), 0) + 1
            if updated:
                res["nontrivial"] = True
        elif t == "remove":
            txt = "%s_%s" % (render(op[2]), op[1])
            texts.append(txt)
            r = kl.ev(k, txt)
            m = models[var[op[1]]]
            m.pop(repr(op[2]), None)
            exp = _dict_canon(m)
            updated = True
            cnt["removes"] = cnt.get("removes", 0) + 1
            if sum(1 for x in var.values() if x == var[op[1]]) > 1:
                cnt["alias_updates"] = cnt.get("alias_updates", 0) + 1
        elif t == "size":
            txt = "#%s" % op[1]
            texts.append(txt)
            r = kl.ev(k, txt)
            exp = I(len(models[var[op[1]]]))
            cnt["lookups_compared"] = cnt.get("lookups_compared", 0) + 1
            if updated:
                res["nontrivial"] = True
        elif t == "each":
            txt = "{x}'%s" % op[1]
            texts.append(txt)
            r = kl.ev(k, txt)
            exp = None
            cnt["lookups_compared"] = cnt.get("lookups_compared", 0) + 1
            if r[0] == "ok":
                got = canon(r[1])
                m = models[var[op[1]]]
                want = sorted(repr(["L", [a, b]]) for a, b in m.values())
                pairs = got[1] if got[0] == "L" else None
                ok = pairs is not None and len(pairs) == len(want)
                if ok:
                    left = list(m.values())
                    for p in pairs:
                        hit = None
                        for j, (a, b) in enumerate(left):
                            if p[0] == "L" and len(p[1]) == 2 and not same(p[1][0], a, "match") and not same(p[1][1], b, "match"):
                                hit = j
                                break
                        if hit is None:
                            ok = False
                            break
                        left.pop(hit)
                if not ok:
                    bad(i, op, "each visited %s, model holds %s" % (brief(got), brief(_dict_canon(m))), "each", "pairs")
                    break
                continue
        elif t == "alias":
            txt = "%s::%s" % (op[1], op[2])
            texts.append(txt)
            r = kl.ev(k, txt)
            var[op[1]] = var[op[2]]
            exp = _dict_canon(models[var[op[2]]])
        elif t == "fnlit":
            # the literal lives in a function; every call must yield a fresh dictionary
            if fn_items is None:
                fn_items = op[2]
                texts.append("mk::{%s}" % _lit(fn_items))
                kl.ev(k, texts[-1])
            txt = "%s::mk()" % op[1]
            texts.append(txt)
            r = kl.ev(k, txt)
            did = len(models)
            models[did] = {repr(a): (a, b) for a, b in fn_items}
            var[op[1]] = did
            exp = _dict_canon(models[did])
            cnt["literal_in_function_calls"] = cnt.get("literal_in_function_calls", 0) + 1
            # mutate the fresh one right away so that sharing with the literal would show next time
            txt2 = "%s,[:mut %d]" % (op[1], i)
            texts.append(txt2)
            kl.ev(k, txt2)
            models[did][repr(Y("mut"))] = (Y("mut"), I(i))
            updated = True
        elif t == "index":
            txt = "%s@%s" % (op[1], render(op[2]))
            texts.append(txt)
            kl.ev(k, txt)
            cnt["index_observed_not_judged"] = cnt.get("index_observed_not_judged", 0) + 1
            continue
        else:
            raise ValueError(t)
        if op[1] not in var and t != "alias":
            continue
        if r[0] != "ok":
            bad(i, op, "raised %s %s" % (r[1], r[2]), t, "raises:" + r[1])
            break
        got = canon(r[1])
        if t == "fnlit":
            got = canon(k[op[1]])
            exp = _dict_canon(models[var[op[1]]])
        d = same(got, exp, "match")
        if d:
            form = t if t != "find" else ("find-" + ("hit" if exp != ["U"] else "miss"))
            bad(i, op, "returned %s, model says %s" % (brief(got), brief(exp)), form, d)
            break
        # all aliases must show the same dictionary as the model
        if t in ("addR", "addL", "remove", "alias", "fnlit"):
            stop = False
            for name, did in var.items():
                g = canon(k[name])
                d2 = same(g, _dict_canon(models[did]), "match")
                if d2:
                    bad(i, op, "after it variable %s holds %s, model says %s" % (name, brief(g), brief(_dict_canon(models[did]))), t + "-visible-through-" + ("alias" if name != op[1] else "self"), d2)
                    stop = True
                    break
            if stop:
                break
    res["key"] = "; ".join(texts)
    res["show"] = {"history": texts}
    return res
