"""C06 - gradient operators return the mathematical derivative.

Generated expression trees over the differentiable operations are rendered to Klong functions and
differentiated by the real operators (f:>p, p∇f, p∂g, loss:>[w b]) on the NumPy (numeric) and the
PyTorch (autograd) backend; the oracle is an independent dual-number evaluation of the same tree
(vf/ref/dual.py).  The two backends are also compared with each other.
"""
import random

from vf.core import kl
from vf.core.canon import canon, brief
from vf.ref import dual as DU

PROPERTY = "C06"
LEVEL = "exploration"
RULE = ("case = (expression tree of size <= 7 over + - * % integer/real powers, negate, +/ */, index, each, backend math functions; form f:>p / p∇f / p∂g / loss:>[w b]; "
        "evaluation point on a grid inside the smooth domain; scalar / vector / multi-parameter); evaluated on numpy and torch(cpu) and compared with exact dual-number "
        "partials. Distinct = distinct (function text, form, point); non-trivial = a gradient was returned by at least one backend and compared.")
ASSUMPTIONS = ["tolerances: numeric path violation above 1e-4 relative (1e-6 absolute), autograd and cross-backend above 1e-3 relative (1e-4 absolute); the band down to the property's figures is reported as near-tolerance only",
               "points are kept inside the smooth domain (positive components, moderate magnitudes)",
               "torch autograd runs in float32: generated trees are compared within 4e-3 relative (2e-4 absolute), numeric NumPy derivatives within 1e-4 (1e-6)"]
MIN_COUNTS = {"quick": {"nontrivial": 1200, "gradients_compared_numpy": 1200, "gradients_compared_torch": 1000, "cross_backend_compared": 900},
              "thorough": {"nontrivial": 25000, "gradients_compared_numpy": 25000, "gradients_compared_torch": 20000, "cross_backend_compared": 18000}}
CASE_TIMEOUT = 300

GRID = [0.5, 0.7, 1.2, 1.5, 2.0]
FNS = ["exp", "sin", "cos", "tanh", "sqrt", "log"]


def _leaf(rng, inputs):
    if rng.random() < 0.8:
        var, i = rng.choice(inputs)
        return ["in", var, i]
    return ["c", rng.choice([0.5, 2.0, 3.0, 1.5])]


def _vec(rng, vecvars, depth):
    v = rng.choice(vecvars)
    r = rng.random()
    if depth <= 0 or r < 0.3:
        return ["vec", v]
    if r < 0.45:
        return ["v*", _vec(rng, vecvars, depth - 1), _vec(rng, vecvars, depth - 1)]
    if r < 0.55:
        return ["v+", _vec(rng, vecvars, depth - 1), ["vec", v]]
    if r < 0.7:
        return ["vpow", _vec(rng, vecvars, depth - 1), rng.choice([2, 3, 0.5, 1.5])]
    if r < 0.82:
        return ["vfn", rng.choice(FNS), _vec(rng, vecvars, depth - 1)]
    if r < 0.92:
        body = rng.choice([["*", ["in", "_", None], ["in", "_", None]], ["+", ["in", "_", None], ["c", 1.5]], ["pow", ["in", "_", None], 2],
                           ["fn", "sin", ["in", "_", None]], ["%", ["c", 1.0], ["in", "_", None]]])
        return ["vmap", body, v]
    return ["vs*", ["c", rng.choice([0.5, 2.0])], _vec(rng, vecvars, depth - 1)]


def _scalar(rng, inputs, vecvars, size):
    if size <= 1:
        return _leaf(rng, inputs)
    r = rng.random()
    if r < 0.45:
        op = rng.choice(["+", "-", "*", "%"])
        a = rng.randint(1, size - 1)
        return [op, _scalar(rng, inputs, vecvars, a), _scalar(rng, inputs, vecvars, size - 1 - a)]
    if r < 0.6:
        return ["pow", _scalar(rng, inputs, vecvars, size - 1), rng.choice([2, 3, 0.5, 1.5])]
    if r < 0.68:
        return ["neg", _scalar(rng, inputs, vecvars, size - 1)]
    if r < 0.82:
        arg = _scalar(rng, inputs, vecvars, size - 1)
        if not _inputs_of(arg, set()):
            arg = ["in"] + list(rng.choice(inputs))      # math functions of bare constants are not about differentiation
        return ["fn", rng.choice(FNS), arg]
    if vecvars:
        return [rng.choice(["sum", "sum", "prod"]), _vec(rng, vecvars, min(2, size - 1))]
    return _leaf(rng, inputs)


def _safe(tree, point):
    """Inside the smooth domain and of moderate magnitude (checked on the dual evaluation itself)."""
    try:
        idx, n = DU.layout(point)
        d = DU.ev(tree, point, idx, n)
    except (ValueError, ZeroDivisionError, OverflowError, TypeError):
        return None
    vals = [d.v] + d.g
    if any(isinstance(x, complex) or x != x or abs(x) > 1e4 for x in vals):
        return None
    return d


def _domain_ok(t, point, idx, n, hole=None):
    """log / sqrt / real powers / division get arguments well inside their smooth domain."""
    k = t[0]
    try:
        if k in ("fn",) and t[1] in ("log", "sqrt"):
            if DU.ev(t[2], point, idx, n, hole).v < 0.2:
                return False
        if k == "pow" and not isinstance(t[2], int):
            if DU.ev(t[1], point, idx, n, hole).v < 0.2:
                return False
        if k == "%":
            if abs(DU.ev(t[2], point, idx, n, hole).v) < 0.2:
                return False
        if k in ("vfn",) and t[1] in ("log", "sqrt"):
            if min(x.v for x in DU.evv(t[2], point, idx, n)) < 0.2:
                return False
        if k == "vpow" and not isinstance(t[2], int):
            if min(x.v for x in DU.evv(t[1], point, idx, n)) < 0.2:
                return False
        if k == "vmap":
            for x in DU.evv(["vec", t[2]], point, idx, n):
                if not _domain_ok(t[1], point, idx, n, x):
                    return False
            return True
    except (ValueError, ZeroDivisionError, OverflowError, TypeError):
        return False
    for x in t[1:]:
        if isinstance(x, list) and x and isinstance(x[0], str):
            if not _domain_ok(x, point, idx, n, hole):
                return False
    return True


def _inputs_of(t, acc):
    if t[0] == "in" and t[1] != "_":
        acc.add(t[1])
    elif t[0] in ("vec",):
        acc.add(t[1])
    elif t[0] == "vmap":
        acc.add(t[2])
    for x in t[1:]:
        if isinstance(x, list) and x and isinstance(x[0], str):
            _inputs_of(x, acc)
    return acc


def cases(tier, seed):
    rng = random.Random(6000 + seed)
    n = 1500 if tier == "quick" else 36000
    out = []
    for fi in range(len(MAT_FNS)):
        for pi in range(len(MAT_POINTS)):
            for mform in ("ag", "nabla"):
                out.append({"form": "matrix", "fn": fi, "pt": pi, "mform": mform})
    # Jacobians of vector-valued functions that select, permute or pass through their argument (the result may be a view of
    # the point): the exact Jacobian is a 0/1 selection matrix, or a scaled one
    for si in range(len(SEL_FNS)):
        for pt in SEL_POINTS:
            for how in ("literal", "symbol"):
                out.append({"form": "selection", "fn": si, "pt": pt, "how": how})
    # points with components of very small and fairly large magnitude (the step of a numeric derivative must not depend on them)
    for fi in range(len(SCALE_FNS)):
        for pt in SCALE_POINTS:
            for mform in ("ag", "nabla"):
                out.append({"form": "scale", "fn": fi, "pt": pt, "mform": mform})
    # the two operators used one after the other on the same function in ONE interpreter (what the first evaluation leaves
    # cached on the function's parse tree must not change the second), at whole-valued and other points
    for fi in range(len(SEQ_FNS)):
        for pt in SEQ_POINTS:
            for order in (("nabla", "ag"), ("ag", "nabla"), ("ag", "ag"), ("nabla", "ag", "ag")):
                out.append({"form": "sequence", "fn": fi, "pt": pt, "order": list(order)})
    n += len(out)
    tries = 0
    while len(out) < n and tries < n * 30:
        tries += 1
        form = rng.choice(["ag", "ag", "nabla", "jac", "multi"])
        if form == "multi":
            ln = rng.randint(1, 3)
            point = {"w": [rng.choice(GRID) for _ in range(ln)], "b": rng.choice(GRID)}
            if rng.random() < 0.4:
                point["c"] = [rng.choice(GRID) for _ in range(ln)]      # vector parameters share one length
        elif rng.random() < 0.3 and form != "jac":
            point = {"x": rng.choice(GRID)}
        else:
            point = {"x": [rng.choice(GRID) for _ in range(rng.randint(1, 3))]}
        inputs = [(v, i) for v in sorted(point) for i in (range(len(point[v])) if isinstance(point[v], list) else [None])]
        vecvars = [v for v in sorted(point) if isinstance(point[v], list)]
        size = rng.randint(2, 7)
        idx, nn = DU.layout(point)
        if form == "jac":
            trees = [_scalar(rng, inputs, vecvars, max(1, size // 2)) for _ in range(rng.randint(1, 3))]
        else:
            trees = [_scalar(rng, inputs, vecvars, size)]
        ok = True
        for t in trees:
            if _safe(t, point) is None or not _domain_ok(t, point, idx, nn):
                ok = False
        if ok:
            used = set()
            for t in trees:
                _inputs_of(t, used)
            edge = None
            if form == "multi" and used != set(point):
                edge = "unused-parameter"
            elif not used:
                edge = "constant-function"
            if edge and rng.random() > 0.15:
                continue            # keep only a few of these structural edge cases
            out.append({"form": form, "trees": trees, "point": point, "edge": edge})
    return out


def init_shard(tier, seed):
    return {}


# matrix-valued points, also produced by expressions (transposed / reversed / re-indexed arrays are not
# contiguous in memory); the functions have closed-form gradients
MAT_FNS = [("{+/,/x*x}", lambda m: 2 * m), ("{+/,/x^3}", lambda m: 3 * m * m), ("{+/,/x}", lambda m: m * 0 + 1.0), ("{+/,/(x*x)+2.0*x}", lambda m: 2 * m + 2.0)]
MAT_POINTS = ["[[0.5 1.5] [2.0 0.7]]", "[[0.5 1.5 1.2] [2.0 0.7 1.5]]", "+[[0.5 1.5 1.2] [2.0 0.7 1.5]]", "|[[0.5 1.5] [2.0 0.7] [1.2 1.2]]",
              "+[[0.5 1.5] [2.0 0.7]]", "[[0.5 1.5] [2.0 0.7] [1.2 1.2]]@[2 0]", "+|[[0.5 1.5 1.2] [2.0 0.7 1.5]]", "[[1 2] [3 4]]", "+[[1 2 3] [4 5 6]]"]


SEQ_FNS = [("{+/x^2}", lambda v: 2 * v), ("{((+/x^2)+(+/x))%#x}", lambda v: (2 * v + 1) / len(v)), ("{+/x^3}", lambda v: 3 * v * v),
           ("{(+/x*x)+(+/x^2)}", lambda v: 4 * v), ("{(+/x^#x)+(+/x)}", lambda v: len(v) * v ** (len(v) - 1) + 1)]
SEQ_POINTS = ["[1.0 2.0 3.0]", "[2.0 2.0]", "[1.5 2.5 3.5]", "[3.0 1.0]"]


def _run_sequence(case, res):
    import numpy as np
    cnt = res["counters"]
    ftext, grad = SEQ_FNS[case["fn"]]
    ptext = case["pt"]
    show = {"program": "g::%s; p::%s; %s" % (ftext, ptext, "; ".join("g:>p" if o == "ag" else "p∇g" for o in case["order"]))}
    res["show"] = show
    res["key"] = show["program"]
    for backend in (None, "torch"):
        name = backend or "numpy"
        k = kl.new(backend)
        kl.ev(k, "g::" + ftext)
        pv = kl.ev(k, "p::" + ptext)
        pt = np.array(_flat(canon(pv[1])), dtype=float)
        exp = grad(pt)
        for step, o in enumerate(case["order"]):
            r = kl.ev(k, "g:>p" if o == "ag" else "p∇g")
            engine = "autograd" if (name == "torch" and o == "ag") else "numeric"
            if name == "torch" and engine == "numeric":
                continue               # executed for its effect on the interpreter's state; its own value is a listed finding
            sig0 = "sequence|%s|%s|step%d-after-%s" % (o, name, step, "+".join(case["order"][:step]) or "nothing")
            if r[0] != "ok":
                res["violations"].append({"sig": sig0 + "|raises:" + r[1], "what": "%s on %s: step %d raised %s %s" % (show["program"], name, step, r[1], r[2][:80]), "detail": show})
                break
            try:
                got = np.array(_flat(canon(r[1])), dtype=float)
            except Exception:
                res["violations"].append({"sig": sig0 + "|non-numeric", "what": "%s on %s: step %d returned %s" % (show["program"], name, step, brief(canon(r[1]))), "detail": show})
                break
            res["nontrivial"] = True
            cnt["gradients_compared_" + name] = cnt.get("gradients_compared_" + name, 0) + 1
            cnt["sequence_steps"] = cnt.get("sequence_steps", 0) + 1
            rel, ab = (1e-3, 1e-4) if engine == "autograd" else (1e-4, 1e-6)
            if got.shape != exp.shape or not np.all(np.abs(got - exp) <= np.maximum(ab, rel * np.abs(exp))):
                res["violations"].append({"sig": sig0 + "|" + ("shape" if got.shape != exp.shape else "value"),
                                          "what": "%s on %s: step %d (%s) returned %s, exact gradient %s" % (show["program"], name, step, o, got.tolist(), exp.tolist()), "detail": show})
                break


SCALE_FNS = [("{(x*x)+x+1}", lambda v: 2 * v + 1, True), ("{+/(x*x)+x}", lambda v: 2 * v + 1, False), ("{+/(3*x)+x^3}", lambda v: 3 + 3 * v * v, False),
             ("{(x^3)+2*x}", lambda v: 3 * v * v + 2, True)]
SCALE_POINTS = ["0.0000001", "0.000003", "-0.0000002", "1000.0", "[0.0000001 0.5 2.0]", "[0.000003 0.0000001]", "[-0.0000002 1.5]", "[250.0 0.00001]", "0.00001"]


def _run_scale(case, res):
    import numpy as np
    cnt = res["counters"]
    ftext, grad, scalar_ok = SCALE_FNS[case["fn"]]
    ptext, form = case["pt"], case["mform"]
    is_vec = ptext.startswith("[")
    if is_vec == scalar_ok and not (is_vec and not scalar_ok):
        if is_vec and scalar_ok:
            return            # the scalar bodies are not folds: vectors are given to the +/ bodies only
    if not is_vec and not scalar_ok:
        return
    expr = ("f:>pp" if form == "ag" else "pp∇f")
    show = {"program": "f::%s; pp::%s; %s" % (ftext, ptext, expr)}
    res["show"] = show
    res["key"] = show["program"]
    for backend in (None, "torch"):
        name = backend or "numpy"
        engine = "autograd" if (name == "torch" and form == "ag") else "numeric"
        if name == "torch" and engine == "numeric":
            continue               # the float32 numeric path on torch is a listed finding
        k = kl.new(backend)
        kl.ev(k, "f::" + ftext)
        pv = kl.ev(k, "pp::" + ptext)
        if pv[0] != "ok":
            continue
        pt = np.array(_flat(canon(pv[1])), dtype=float)
        exp = grad(pt)
        r = kl.ev(k, expr)
        if r[0] != "ok":
            res["violations"].append({"sig": "scale-point|%s|%s|raises:%s" % (form, name, r[1]), "what": "%s on %s raised %s %s" % (show["program"], name, r[1], r[2][:80]), "detail": show})
            continue
        try:
            got = np.array(_flat(canon(r[1])), dtype=float)
        except Exception:
            res["violations"].append({"sig": "scale-point|%s|%s|non-numeric" % (form, name), "what": "%s on %s returned %s" % (show["program"], name, brief(canon(r[1]))), "detail": show})
            continue
        res["nontrivial"] = True
        cnt["gradients_compared_" + name] = cnt.get("gradients_compared_" + name, 0) + 1
        cnt["scale_points"] = cnt.get("scale_points", 0) + 1
        rel, ab = (1e-3, 1e-4) if engine == "autograd" else (1e-4, 1e-6)
        mag = "tiny" if np.min(np.abs(pt)) < 1e-4 else "large"
        if got.shape != exp.shape or not np.all(np.abs(got - exp) <= np.maximum(ab, rel * np.abs(exp))):
            res["violations"].append({"sig": "scale-point|%s|%s|%s|%s" % (form, name, mag, "shape" if got.shape != exp.shape else "value"),
                                      "what": "%s on %s returned %s, exact gradient %s" % (show["program"], name, got.tolist(), exp.tolist()), "detail": show})


SEL_FNS = [("{x}", lambda n: [[1.0 if i == j else 0.0 for j in range(n)] for i in range(n)]),
           ("{|x}", lambda n: [[1.0 if j == n - 1 - i else 0.0 for j in range(n)] for i in range(n)]),
           ("{2#x}", lambda n: [[1.0 if j == i % n else 0.0 for j in range(n)] for i in range(2)]),
           ("{1_x}", lambda n: [[1.0 if j == i + 1 else 0.0 for j in range(n)] for i in range(n - 1)]),
           ("{x@[1 0]}", lambda n: [[1.0 if j == (1, 0)[i] else 0.0 for j in range(n)] for i in range(2)]),
           ("{(-1)#x}", lambda n: [[1.0 if j == n - 1 else 0.0 for j in range(n)]]),
           ("{1:+x}", lambda n: [[1.0 if j == (i - 1) % n else 0.0 for j in range(n)] for i in range(n)]),
           ("{x,x}", lambda n: [[1.0 if j == i % n else 0.0 for j in range(n)] for i in range(2 * n)]),
           ("{2.0*x}", lambda n: [[2.0 if i == j else 0.0 for j in range(n)] for i in range(n)]),
           ("{x+0}", lambda n: [[1.0 if i == j else 0.0 for j in range(n)] for i in range(n)])]
SEL_POINTS = ["[0.5 1.5]", "[2.0 0.7 1.2]", "[1.5 0.25 3.0 0.75]"]


def _run_selection(case, res):
    import numpy as np
    cnt = res["counters"]
    ftext, jac = SEL_FNS[case["fn"]]
    ptext = case["pt"]
    n = len(ptext.split())
    if n < 2 and ftext == "{1_x}":
        return
    exp = np.array(jac(n), dtype=float)
    expr = ("%s∂g" % ptext) if case["how"] == "literal" else "p∂g"
    show = {"program": "g::%s; p::%s; %s" % (ftext, ptext, expr)}
    res["show"] = show
    res["key"] = show["program"]
    for backend in (None, "torch"):
        name = backend or "numpy"
        k = kl.new(backend)
        kl.ev(k, "g::" + ftext)
        kl.ev(k, "p::" + ptext)
        r = kl.ev(k, expr)
        if r[0] != "ok":
            res["violations"].append({"sig": "selection-jacobian|%s|%s|raises:%s" % (ftext, name, r[1]), "what": "%s on %s raised %s %s" % (show["program"], name, r[1], r[2][:80]), "detail": show})
            continue
        try:
            got = np.array(_tolists(canon(r[1])), dtype=float)
        except Exception:
            res["violations"].append({"sig": "selection-jacobian|%s|%s|non-numeric" % (ftext, name), "what": "%s on %s returned %s" % (show["program"], name, brief(canon(r[1]))), "detail": show})
            continue
        if got.ndim == 1 and exp.shape[0] == 1:
            got = got.reshape(1, -1)
        res["nontrivial"] = True
        cnt["gradients_compared_" + name] = cnt.get("gradients_compared_" + name, 0) + 1
        cnt["selection_jacobians"] = cnt.get("selection_jacobians", 0) + 1
        if got.shape != exp.shape or not np.all(np.abs(got - exp) <= 2e-3):
            res["violations"].append({"sig": "selection-jacobian|%s|%s|%s" % (ftext, name, "shape" if got.shape != exp.shape else "value"),
                                      "what": "%s on %s returned %s, the exact Jacobian is %s" % (show["program"], name, got.tolist(), exp.tolist()), "detail": show})
        p_after = kl.ev(k, "p")
        if p_after[0] == "ok" and any(abs(a - b) > 1e-5 for a, b in zip(_flat(canon(p_after[1])), [float(x) for x in ptext.strip("[]").split()])):
            res["violations"].append({"sig": "selection-jacobian|%s|%s|point-changed" % (ftext, name), "what": "%s on %s left p = %s" % (show["program"], name, brief(canon(p_after[1]))), "detail": show})


def _run_matrix(case, res):
    import numpy as np
    cnt = res["counters"]
    fi, pi, form = case["fn"], case["pt"], case["mform"]
    ftext, gfun = MAT_FNS[fi]
    ptext = MAT_POINTS[pi]
    # the left operand of ∇ is not evaluated (a literal or a symbol): the point goes through a variable
    expr = ("f:>(%s)" % ptext) if form == "ag" else ("pp::%s;pp∇f" % ptext)
    show = {"program": "f::%s; %s" % (ftext, expr)}
    res["show"] = show
    res["key"] = show["program"]
    for backend in (None, "torch"):
        name = backend or "numpy"
        k = kl.new(backend)
        kl.ev(k, "f::" + ftext)
        pv = kl.ev(k, ptext)
        if pv[0] != "ok":
            continue
        m = np.array(_tolists(canon(pv[1])), dtype=float)
        exp = gfun(m)
        r = kl.ev(k, expr)
        engine = "autograd" if (name == "torch" and form == "ag") else "numeric"
        if name == "torch" and engine == "numeric":
            continue               # the float32 numeric path on torch is a listed finding
        layout = "derived" if ptext[0] in "+|" or "@" in ptext else "literal"
        if r[0] != "ok":
            res["violations"].append({"sig": "matrix-point|%s|%s|%s|raises:%s" % (form, name, layout, r[1]), "what": "%s on %s raised %s %s" % (expr, name, r[1], r[2]), "detail": show})
            continue
        try:
            got = np.array(_tolists(canon(r[1])), dtype=float)
        except Exception:
            res["violations"].append({"sig": "matrix-point|%s|%s|%s|non-numeric" % (form, name, layout), "what": "%s on %s returned %s" % (expr, name, brief(canon(r[1]))), "detail": show})
            continue
        res["nontrivial"] = True
        cnt["gradients_compared_" + name] = cnt.get("gradients_compared_" + name, 0) + 1
        cnt["matrix_points_" + layout] = cnt.get("matrix_points_" + layout, 0) + 1
        rel, ab = (1e-3, 1e-4) if engine == "autograd" else (1e-4, 1e-6)
        if got.shape != exp.shape or not np.all(np.abs(got - exp) <= np.maximum(ab, rel * np.abs(exp))):
            res["violations"].append({"sig": "matrix-point|%s|%s|%s|%s" % (form, name, layout, "shape" if got.shape != exp.shape else "value"),
                                      "what": "%s on %s returned %s, exact gradient %s" % (expr, name, got.tolist(), exp.tolist()), "detail": show})


def _tolists(c):
    if c[0] == "L":
        return [_tolists(x) for x in c[1]]
    return c[1]


def _flat(c):
    if c[0] in ("I", "R"):
        return [float(c[1])]
    if c[0] == "L":
        out = []
        for x in c[1]:
            out += _flat(x)
        return out
    raise ValueError(c[0])


def _klit(v):
    if isinstance(v, list):
        return "[" + " ".join(repr(float(x)) for x in v) + "]"
    return repr(float(v))


def _program(case):
    form, trees, point = case["form"], case["trees"], case["point"]
    pre = ['.bkf(["exp" "sin" "cos" "tanh" "sqrt" "log"])']
    if form in ("ag", "nabla", "jac"):
        body = DU.render(trees[0]) if form != "jac" else "[;" + ";".join(DU.render(t) for t in trees) + "]"
        pre.append("f::{%s}" % body)
        p = _klit(point["x"])
        if form == "ag":
            return pre, "f:>%s" % p
        if form == "nabla":
            return pre, "%s∇f" % p
        return pre, "%s∂f" % p
    for v in sorted(point):
        pre.append("%s::%s" % (v, _klit(point[v])))
    pre.append("loss::{%s}" % DU.render(trees[0]))
    return pre, "loss:>[%s]" % " ".join(sorted(point))


def _expected(case):
    form, trees, point = case["form"], case["trees"], case["point"]
    idx, n = DU.layout(point)
    if form == "jac":
        rows = []
        for t in trees:
            rows += DU.ev(t, point, idx, n).g
        return rows
    return DU.ev(trees[0], point, idx, n).g


def _run_backend(case, backend):
    k = kl.new(backend)
    pre, expr = _program(case)
    for s in pre:
        r = kl.ev(k, s)
        if r[0] != "ok":
            return ("setup-error", r[1] + ":" + r[2])
    r = kl.ev(k, expr)
    if r[0] != "ok":
        return ("err", r[1] + ": " + r[2])
    try:
        return ("ok", _flat(canon(r[1])))
    except ValueError as e:
        return ("shape", brief(canon(r[1])))


def _cmp(got, exp, rel, ab):
    if len(got) != len(exp):
        return "shape", None
    worst = 0.0
    for g, e in zip(got, exp):
        if g != g:
            return "nan", None
        err = abs(g - e)
        tol = max(ab, rel * abs(e))
        worst = max(worst, err / tol if tol else 0)
    return ("value" if worst > 1 else None), worst


def run_case(ctx, case):
    res = {"nontrivial": False, "counters": {}, "violations": []}
    cnt = res["counters"]
    if case.get("form") == "matrix":
        _run_matrix(case, res)
        return res
    if case.get("form") == "sequence":
        _run_sequence(case, res)
        return res
    if case.get("form") == "scale":
        _run_scale(case, res)
        return res
    if case.get("form") == "selection":
        _run_selection(case, res)
        return res
    pre, expr = _program(case)
    exp = _expected(case)
    ops = set()
    for t in case["trees"]:
        ops |= DU.ops_of(t)
    res["key"] = "; ".join(pre[1:] + [expr])
    show = {"program": "; ".join(pre[1:] + [expr]), "expected": [round(x, 8) for x in exp]}
    res["show"] = show
    out = {}
    for backend in (None, "torch"):
        name = backend or "numpy"
        r = _run_backend(case, backend)
        out[name] = r
        show[name] = r[1] if r[0] != "ok" else [round(x, 8) for x in r[1]]
        if r[0] == "setup-error":
            cnt["setup_errors_" + name] = 1
            continue
        autograd = (name == "torch" and case["form"] in ("ag", "multi", "jac"))
        # torch differentiates in float32: a sum of terms that partly cancel loses a few more digits than one rounding, so the generated
        # (arbitrarily conditioned) trees are accepted within 4e-3 relative there; the closed-form families keep 1e-3
        rel, ab = ((4e-3, 2e-4) if case["form"] in ("ag", "multi") else (1e-3, 1e-4)) if autograd else (1e-4, 1e-6)
        if name == "torch" and not autograd:
            rel, ab = 2e-3, 2e-4          # numeric differentiation evaluated through float32 tensors
        engine = "autograd" if autograd else "numeric"
        if r[0] != "ok":
            res["violations"].append({"sig": "%s|%s|%s|%s%s" % (case["form"], name, engine, ("raises:" + r[1].split(":")[0]) if r[0] == "err" else "non-numeric-result",
                                                                  ("|" + case["edge"]) if case.get("edge") else ""),
                                      "what": "%s on %s: %s" % (expr, name, r[1]), "detail": show})
            continue
        res["nontrivial"] = True
        cnt["gradients_compared_" + name] = 1
        for o in ops:
            cnt["op:%s:%s" % (o, name)] = 1
        d, worst = _cmp(r[1], exp, rel, ab)
        if d:
            blame = sorted(ops)
            res["violations"].append({"sig": "%s|%s|%s|%s|ops:%s" % (case["form"], name, engine, d, "+".join(blame)),
                                      "what": "%s on %s returned %s, exact derivative %s" % (expr, name, show[name], show["expected"]), "detail": show})
        elif worst is not None and worst > 0.1:
            cnt["near_tolerance_" + name] = 1
    if out.get("numpy", ("",))[0] == "ok" and out.get("torch", ("",))[0] == "ok":
        cnt["cross_backend_compared"] = 1
        d, worst = _cmp(out["numpy"][1], out["torch"][1], 5e-3 if case["form"] in ("ag", "multi") else 2e-3, 2e-4)
        if d and not res["violations"]:
            res["violations"].append({"sig": "%s|cross-backend|%s|ops:%s" % (case["form"], d, "+".join(sorted(ops))),
                                      "what": "%s: numpy %s vs torch %s" % (expr, show["numpy"], show["torch"]), "detail": show})
    return res
