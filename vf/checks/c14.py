"""C14 - every remote call gets its own answer or an error: never another's, never hangs.

The real NetworkClient runs over in-memory streams (vf/mon/memstream.py): the harness plays the
server and controls the arrival order of the responses, their fragmentation and the byte at which
the stream is cut.  Caller threads record call/return at the client boundary; every fabricated
response embeds the token of the request it answers, so "own answer" is an equality and
"exactly once" a count.  Hanging is decided logically: the listener task has exited and a caller
is still blocked.  A second family runs real loopback TCP pairs (server-side failure, .clic and
.srv(0) racing with calls) under seeded yield injection on the multi-threaded lines.
"""
import itertools
import random
import threading
import time

from vf.core import kl

PROPERTY = "C14"
LEVEL = "exploration"
RULE = ("case = (A) in-memory scenario: 1-3 concurrent calls x arrival order of the responses x fragmentation pattern x cut class {none, inside id, inside length, "
        "inside body, between frames} x number of responses delivered before the cut x time of loss {before send, after send, after partial response} x a late call "
        "after the loss; or (B) a real-TCP scenario (server evaluation fails, .clic / .srv(0) racing with pending calls, call after close) under a seeded yield-injection "
        "schedule. Distinct = distinct scenario; non-trivial = all callers were accounted for (returned own answer / raised) or a hang was decided.")
ASSUMPTIONS = ["a caller is hung when the listener task has exited (nothing can complete its future any more) and the caller is still blocked after a generous grace period",
               "which exception a failed call raises is not prescribed"]
MIN_COUNTS = {"quick": {"nontrivial": 350, "calls_accounted": 800, "scenarios_with_2plus_pending_at_cut": 100, "late_calls": 100, "paused_calls_stopped_at_a_line": 6},
              "thorough": {"nontrivial": 2000, "calls_accounted": 5000, "scenarios_with_2plus_pending_at_cut": 450, "late_calls": 1400, "paused_calls_stopped_at_a_line": 40}}
CASE_TIMEOUT = 300
MIN_SHARD = 8

CUTS = ["none", "inside-id", "inside-length", "inside-body", "between-frames", "bad-body"]


def cases(tier, seed):
    from vf.mon.memstream import PATTERNS
    rng = random.Random(14000 + seed)
    out = []
    for n in (1, 2, 3):
        for order in itertools.permutations(range(n)):
            for cut in CUTS:
                for after in range(0, n + 1):
                    if cut == "none" and after != n:
                        continue
                    if cut in ("inside-id", "inside-length", "inside-body", "bad-body") and after >= n:
                        continue
                    pats = PATTERNS if tier == "thorough" else rng.sample(PATTERNS, 3)
                    for pat in pats:
                        out.append({"t": "mem", "n": n, "order": list(order), "cut": cut, "after": after, "frag": pat, "merge": rng.random() < 0.3,
                                    "when": "after-send", "late": True})
    for n in (0, 1, 2, 3):
        out.append({"t": "mem", "n": n, "order": list(range(n)), "cut": "between-frames", "after": 0, "frag": "whole", "merge": False, "when": "before-send", "late": True})
    # a locally initiated close that is acknowledged while 0..3 other calls are still unanswered
    for n in (0, 1, 2, 3):
        for after in range(0, n + 1):
            for order in (list(range(n)), list(reversed(range(n)))):
                for pat in (["whole", "bytes", "split-len"] if tier == "quick" else PATTERNS):
                    out.append({"t": "mem", "n": n, "order": order, "cut": "close-ack", "after": after, "frag": pat, "merge": False, "when": "after-send", "late": True})
    # one call stopped at each of its source lines (caller's thread) while the connection is lost and the listener exits
    for line in range(0, 9):
        for rep in range(2 if tier == "quick" else 12):
            out.append({"t": "paused-call", "line": line, "rep": rep, "loss": ["eof", "eof", "close-ack"][rep % 3] if line < 8 else "eof"})
    # real TCP races under yield injection
    nt = 60 if tier == "quick" else 1500
    kinds = ["server-eval-fails", "clic-while-pending", "call-after-clic", "srv0-while-pending", "server-missing-symbol"]
    for i in range(nt):
        out.append({"t": "tcp", "kind": kinds[i % len(kinds)], "pending": rng.randint(0, 3), "yseed": rng.randrange(10 ** 9)})
    return out


def init_shard(tier, seed):
    from vf.mon.memstream import LoopThread
    return {"io": LoopThread("vf-io"), "kl": LoopThread("vf-klong"), "k": kl.new(), "tcp": None}


def _listener_gone(io, nc):
    """Logical hang criterion: no task that could complete a caller's future exists any more -
    the exit event is set, or no live task of the io loop is running this client's _run coroutine."""
    if nc._run_exit_event.is_set():
        return True
    import asyncio

    def probe():
        for t in asyncio.all_tasks(io.loop):
            if t.done():
                continue
            co = t.get_coro()
            fr = getattr(co, "cr_frame", None)
            if fr is not None and fr.f_locals.get("self") is nc and getattr(co, "__qualname__", "").endswith("NetworkClient._run"):
                return False
        return True
    try:
        return io.call(probe)
    except Exception:
        return False


def _order_class(order):
    if order == sorted(order):
        return "in-order"
    if order == sorted(order, reverse=True):
        return "reversed"
    return "other"


def _run_mem(ctx, case, res):
    import asyncio
    from klongpy.sys_fn_ipc import NetworkClient, ReaderWriterConnectionProvider, encode_message
    from vf.mon.memstream import MemWriter, fragments
    io, klp, k = ctx["io"], ctx["kl"], ctx["k"]
    cnt = res["counters"]
    n = case["n"]
    reader = io.call(asyncio.StreamReader)
    writer = MemWriter(io.loop)
    nc = NetworkClient(io.loop, klp.loop, k, ReaderWriterConnectionProvider(reader, writer, "mem", 0))
    t0 = threading.Thread(target=nc.run_client, daemon=True)
    t0.start()
    t0.join(10)
    if t0.is_alive():
        res["harness_error"] = "run_client did not return"
        return
    results = {}

    def caller(i, token):
        try:
            results[i] = ("ret", nc.call(token))
        except BaseException as e:
            results[i] = ("raise", type(e).__name__)

    def feed(data):
        io.loop.call_soon_threadsafe(reader.feed_data, data)
        io.call(lambda: None)

    def eof():
        io.loop.call_soon_threadsafe(reader.feed_eof)
        io.call(lambda: None)

    if case["when"] == "before-send":
        eof()
        for _ in range(200):
            if nc._run_exit_event.is_set():
                break
            time.sleep(0.01)
    threads = []
    for i in range(n):
        th = threading.Thread(target=caller, args=(i, "req-%d" % i), daemon=True)
        th.start()
        threads.append(th)
    delivered = set()
    framed = set()
    if case["when"] != "before-send" and (n or case["cut"] == "close-ack"):
        if not writer.wait_frames(n, 15):
            res["harness_error"] = "only %d of %d requests reached the wire" % (len(writer.frames), n)
            return
        ids = {}
        for mid, msg in writer.frames:
            ids[msg] = mid
        if sorted(ids) != sorted("req-%d" % i for i in range(n)):
            res["violations"].append({"sig": "request-corrupted|n:%d" % n, "what": "requests on the wire: %r" % (list(ids),), "detail": case})
            return
        frames = [encode_message(ids["req-%d" % i], "resp-%d" % i) for i in case["order"]]
        full, partial = frames[:case["after"]], None
        if case["cut"] == "close-ack":
            from klongpy.sys_fn_ipc import KGRemoteCloseConnection

            def closer():
                try:
                    results["close"] = ("ret", nc.close())
                except BaseException as e:
                    results["close"] = ("raise", type(e).__name__)
            tcl = threading.Thread(target=closer, daemon=True)
            tcl.start()
            if not writer.wait_frames(n + 1, 15):
                res["harness_error"] = "the close request did not reach the wire"
                return
            close_id = [mid for mid, msg in writer.frames if isinstance(msg, KGRemoteCloseConnection)]
            if not close_id:
                res["harness_error"] = "no close request among the frames"
                return
            partial = encode_message(close_id[0], KGRemoteCloseConnection())
        if case["cut"] == "bad-body":
            # a complete frame (right id, right length) whose body cannot be decoded: its caller must not be left waiting
            nxt = frames[case["after"]]
            partial = nxt[:20] + b"\xff" * (len(nxt) - 20)
            framed.add(case["order"][case["after"]])
        if case["cut"] in ("inside-id", "inside-length", "inside-body"):
            nxt = frames[case["after"]]
            cutpos = {"inside-id": 7, "inside-length": 18, "inside-body": 20 + max(1, (len(nxt) - 20) // 2)}[case["cut"]]
            partial = nxt[:cutpos]
        if case["merge"]:
            blob = b"".join(full) + (partial or b"")
            for piece in fragments(blob, case["frag"]) if blob else []:
                feed(piece)
        else:
            for fr in full:
                for piece in fragments(fr, case["frag"]):
                    feed(piece)
            if partial:
                for piece in fragments(partial, case["frag"] if case["frag"] in ("bytes", "7") else "whole"):
                    feed(piece)
        delivered = set(case["order"][:case["after"]])
        if n - len(delivered) >= 2 and case["cut"] != "none":
            cnt["scenarios_with_2plus_pending_at_cut"] = 1
        if case["cut"] == "close-ack":
            tcl.join(20)
            if tcl.is_alive():
                res["violations"].append({"sig": "close-hangs|pending:%d" % (n - len(delivered)), "what": "close() still blocked 20 s after its acknowledgement was delivered", "detail": case})
        elif case["cut"] == "bad-body":
            cnt["undecodable_frames_delivered"] = 1
        elif case["cut"] != "none":
            eof()
    # ------------------------------------------------------------- account for every caller
    sigbase = "order:%s|frag:%s|cut:%s|when:%s|pending:%d" % (_order_class(case["order"]), case["frag"] + ("+merged" if case["merge"] else ""), case["cut"], case["when"], n - len(delivered))
    deadline = time.time() + 20
    for i, th in enumerate(threads):
        th.join(max(0.1, deadline - time.time()))
    for i, th in enumerate(threads):
        if th.is_alive():
            if case["cut"] == "none" and i not in delivered:
                continue
            # logical criterion: the listener is gone, nothing can complete this caller any more
            gone = _listener_gone(io, nc)
            if i in delivered or i in framed or gone:
                res["violations"].append({"sig": "hang|" + sigbase, "what": "caller %d still blocked (%s)" % (i, "its response was delivered" if i in delivered else "its response frame arrived complete but undecodable" if i in framed else "listener task exited"), "detail": case})
            else:
                res["counters"]["inconclusive_blocked_callers"] = 1
            continue
        cnt["calls_accounted"] = cnt.get("calls_accounted", 0) + 1
        r = results.get(i)
        if i in delivered:
            if r != ("ret", "resp-%d" % i):
                kind = "foreign-answer" if (r and r[0] == "ret" and str(r[1]).startswith("resp-")) else "no-answer"
                res["violations"].append({"sig": "%s|%s" % (kind, sigbase), "what": "caller %d whose response was delivered got %r" % (i, r), "detail": case})
        else:
            if r and r[0] == "ret":
                res["violations"].append({"sig": "returned-without-response|" + sigbase, "what": "caller %d returned %r although its response never arrived completely" % (i, r[1]), "detail": case})
    res["nontrivial"] = True
    # ------------------------------------------------------------- a call after the connection has gone
    if case["late"] and case["cut"] != "none":
        for _ in range(300):
            if nc._run_exit_event.is_set():
                break
            time.sleep(0.01)
        th = threading.Thread(target=caller, args=("late", "req-late"), daemon=True)
        th.start()
        th.join(15)
        cnt["late_calls"] = 1
        if th.is_alive():
            res["violations"].append({"sig": "late-call-hangs|cut:%s|when:%s" % (case["cut"], case["when"]), "what": "a call issued after the connection was lost is still blocked after 15 s (listener gone: %s)" % _listener_gone(io, nc), "detail": case})
        elif results.get("late", ("",))[0] == "ret":
            res["violations"].append({"sig": "late-call-returns|cut:%s" % case["cut"], "what": "a call issued after the connection was lost returned %r" % (results["late"][1],), "detail": case})
    if case["cut"] == "none":
        # leave no listener behind
        eof()
    cnt["pending_table_nonempty_after_exit"] = 1 if (nc._run_exit_event.is_set() and nc.pending_responses) else 0
    res["show"] = dict(case, results={str(a): b for a, b in results.items()})


def _run_paused_call(ctx, case, res):
    """A caller is held at its k-th source line inside NetworkClient.call (in its own thread) until the connection has been
    lost and the listener has finished its clean-up; then it continues.  It must come back (answer or error), never wait forever."""
    import asyncio
    import sys
    from klongpy.sys_fn_ipc import NetworkClient, ReaderWriterConnectionProvider
    from vf.mon.memstream import MemWriter
    io, klp, k = ctx["io"], ctx["kl"], ctx["k"]
    cnt = res["counters"]
    reader = io.call(asyncio.StreamReader)
    writer = MemWriter(io.loop)
    nc = NetworkClient(io.loop, klp.loop, k, ReaderWriterConnectionProvider(reader, writer, "mem", 0))
    t0 = threading.Thread(target=nc.run_client, daemon=True)
    t0.start()
    t0.join(10)
    if t0.is_alive():
        res["harness_error"] = "run_client did not return"
        return
    st = {"count": 0, "paused": threading.Event(), "resume": threading.Event(), "tid": None, "line": None}
    results = {}
    mon = sys.monitoring
    TOOL = mon.PROFILER_ID

    def on_line(code, line):
        if threading.get_ident() != st["tid"]:
            return
        i = st["count"]
        st["count"] += 1
        if i == case["line"]:
            st["line"] = line
            st["paused"].set()
            st["resume"].wait(20)

    def caller():
        st["tid"] = threading.get_ident()
        try:
            results["c"] = ("ret", nc.call("req-paused"))
        except BaseException as e:
            results["c"] = ("raise", type(e).__name__)
    code = NetworkClient.call.__code__
    mon.use_tool_id(TOOL, "vf-pause")
    try:
        mon.register_callback(TOOL, mon.events.LINE, on_line)
        mon.set_local_events(TOOL, code, mon.events.LINE)
        th = threading.Thread(target=caller, daemon=True)
        th.start()
        reached = st["paused"].wait(5)
        io.loop.call_soon_threadsafe(reader.feed_eof)
        io.call(lambda: None)
        for _ in range(300):
            if nc._run_exit_event.is_set():
                break
            time.sleep(0.01)
        st["resume"].set()
        th.join(15)
    finally:
        mon.set_local_events(TOOL, code, 0)
        mon.register_callback(TOOL, mon.events.LINE, None)
        mon.free_tool_id(TOOL)
    cnt["paused_calls"] = 1
    if reached:
        cnt["paused_calls_stopped_at_a_line"] = 1
    res["nontrivial"] = True
    res["show"] = dict(case, stopped_at_source_line=st["line"], result=results.get("c"), listener_exited=nc._run_exit_event.is_set())
    if th.is_alive():
        res["violations"].append({"sig": "hang|paused-call|%s" % ("line:%d" % case["line"] if reached else "not-stopped"),
                                  "what": "a call held at source line %s of NetworkClient.call while the connection was lost is still blocked 15 s after it was released (listener gone: %s)" % (st["line"], _listener_gone(io, nc)),
                                  "detail": res["show"]})
    elif results.get("c", ("",))[0] == "ret":
        res["violations"].append({"sig": "returned-without-response|paused-call", "what": "the call returned %r although no response was ever delivered" % (results["c"][1],), "detail": res["show"]})


# ------------------------------------------------------------------------------- real TCP

def _run_tcp(ctx, case, res):
    import subprocess
    import json
    import os
    import sys
    from vf.core import env
    # every race scenario gets its own process: the IPC server is a module-level singleton and its
    # teardown from a foreign thread can leave loops behind that would poison later scenarios
    argv = [env.PY, os.path.join(env.VERIF, "vf", "checks", "c14_tcp.py"), json.dumps(case)]
    try:
        r = subprocess.run(argv, env=env.child_env(), capture_output=True, text=True, timeout=120)
    except subprocess.TimeoutExpired:
        res["counters"]["tcp_scenario_watchdog"] = 1
        res["counters"]["inconclusive_tcp"] = 1
        return
    line = [l for l in r.stdout.splitlines() if l.startswith("VFRESULT ")]
    if not line:
        res["counters"]["inconclusive_tcp"] = 1
        res["show"] = {"case": case, "stderr": r.stderr[-400:]}
        return
    out = json.loads(line[-1][9:])
    res["counters"].update(out.get("counters", {}))
    res["violations"] += out.get("violations", [])
    res["nontrivial"] = out.get("accounted", False)
    res["show"] = {"case": case, "observed": out.get("observed")}


def run_case(ctx, case):
    res = {"nontrivial": False, "counters": {}, "violations": [], "key": repr(case)}
    if case["t"] == "mem":
        _run_mem(ctx, case, res)
    elif case["t"] == "paused-call":
        _run_paused_call(ctx, case, res)
    else:
        _run_tcp(ctx, case, res)
    return res
