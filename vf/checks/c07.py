"""C07 - gradient and Jacobian computation is observationally pure.

Snapshot monitor: all user variables (value bit-for-bit, Python kind, dtype, requires_grad) and the
value of the differentiated function are recorded before a gradient expression and compared after
it returned or failed.  Failures are injected by a harness callable inside the loss that raises on
its k-th evaluation, for every k up to the number of evaluations observed in the clean run; plus
losses that return non-scalars or reference unknown names.
"""
import random

import numpy as np

from vf.core import kl

PROPERTY = "C07"
LEVEL = "fault_enumeration"
RULE = ("case = (gradient form f:>p / f:>sym / sym∇f / p∂g / loss:>[w b] / [w b]∂g, parameter kinds float vector / int vector / scalar / matrix, backend) x fault "
        "{none, raise at the k-th loss evaluation for every k observed in the clean run (capped), non-scalar loss, unknown name}; the variable snapshot (bit-exact "
        "values, Python kind, dtype, requires_grad) and f() are compared before/after. Distinct = distinct (form, parameters, backend, fault); non-trivial = the "
        "gradient expression was evaluated and the post-state compared.")
ASSUMPTIONS = ["the harness callable inside the loss is the identity (it preserves gradient tracking on torch) and only counts / raises",
               "k ranges over every evaluation index of the clean run up to 12, then first / middle / last"]
MIN_COUNTS = {"quick": {"nontrivial": 600, "faulted_runs": 1200, "clean_runs": 200, "snapshots_compared": 1500},
              "thorough": {"nontrivial": 15000, "faulted_runs": 15000, "clean_runs": 2000, "snapshots_compared": 20000}}
CASE_TIMEOUT = 300

VECS = {"fvec": "[0.3 0.7 1.1]", "fvec2": "[2.3 13.7]", "ivec": "[1 2 3]", "fscalar": "1.1", "iscalar": "2", "fmat": "[[0.3 0.7] [1.1 2.3]]", "fvec1": "[0.7]"}
FORMS = ["ag-literal", "ag-symbol", "nabla-symbol", "nabla-literal", "jac-literal", "multi", "multi-jac", "jac-symbol-point", "multi-dup", "multi-jac-dup"]


def cases(tier, seed):
    rng = random.Random(7000 + seed)
    out = []
    for form in FORMS:
        for pk in VECS:
            for backend in ("numpy", "torch"):
                for fault in ("sweep", "non-scalar", "unknown-name"):
                    for body in ("sumsq", "prod", "mixed"):
                        if form in ("jac-literal", "multi-jac", "jac-symbol-point", "multi-jac-dup") and pk in ("fscalar", "iscalar"):
                            continue
                        for salt in range(1 if tier == "quick" else 20):
                            out.append({"form": form, "param": pk, "backend": backend, "fault": fault, "salt": salt + (0 if salt == 0 else 1000 * seed), "body": body})
    return out


def _literal(pk, salt):
    """The point literal of a parameter kind; salt 0 is the fixed grid, other salts draw the numbers (same shape and kind)."""
    if salt == 0:
        return VECS[pk]
    r = random.Random("%s/%d" % (pk, salt))
    f = lambda: repr(round(r.uniform(0.2, 3.0), 3))
    i = lambda: str(r.randint(1, 6))
    return {"fvec": "[%s %s %s]" % (f(), f(), f()), "fvec2": "[%s %s]" % (f(), f()), "ivec": "[%s %s %s]" % (i(), i(), i()), "fscalar": f(), "iscalar": i(),
            "fmat": "[[%s %s] [%s %s]]" % (f(), f(), f(), f()), "fvec1": "[%s]" % f()}[pk]


def init_shard(tier, seed):
    return {}


def _snap(k):
    """Bit-exact snapshot of every user variable: kind tag + content fingerprint."""
    from klongpy.utils import ReadonlyDict
    out = {}
    for d in list(k._context._context):
        if isinstance(d, ReadonlyDict):
            continue
        for name, v in list(d.items()):
            s = str(name)
            if s.startswith(".") or s in ("x", "y", "z") or s in out:
                continue
            out[s] = _fp(v)
    return out


def _fp(v):
    t = type(v).__name__
    if type(v).__module__.startswith("torch"):
        return ("torch.Tensor", str(v.dtype), bool(getattr(v, "requires_grad", False)), tuple(v.shape), v.detach().cpu().numpy().tobytes())
    if isinstance(v, np.ndarray):
        if v.dtype == object:
            return ("ndarray", "object", tuple(_fp(x) for x in v))
        return ("ndarray", str(v.dtype), tuple(v.shape), np.ascontiguousarray(v).tobytes())
    if isinstance(v, (int, float, str, np.generic)):
        return (t, repr(v))
    if callable(v) or t in ("KGFn", "KGCall", "KGLambda"):
        return (t,)
    return (t, repr(v)[:60])


def _diff(a, b):
    out = []
    for n in sorted(set(a) | set(b)):
        if n not in a:
            out.append((n, "appeared", b[n][:3]))
        elif n not in b:
            out.append((n, "disappeared", a[n][:3]))
        elif a[n] != b[n]:
            kind = "kind" if a[n][:3] != b[n][:3] and (a[n][0] != b[n][0] or a[n][1] != b[n][1] or (len(a[n]) > 2 and a[n][0] == "torch.Tensor" and a[n][2] != b[n][2])) else "value"
            out.append((n, kind, "%s -> %s" % (a[n][:3], b[n][:3])))
    return out


def _setup(case):
    k = kl.new(None if case["backend"] == "numpy" else "torch")
    state = {"n": 0, "fail_at": None}

    def hook(x):
        state["n"] += 1
        if state["fail_at"] is not None and state["n"] == state["fail_at"]:
            raise RuntimeError("scripted failure at evaluation %d" % state["n"])
        return x
    k["hook"] = hook
    pk = case["param"]
    lit = _literal(pk, case.get("salt", 0))
    scalar = pk in ("fscalar", "iscalar")
    form = case["form"]
    body = case["body"]
    if scalar:
        core = {"sumsq": "VAR*VAR", "prod": "VAR*3.0", "mixed": "(VAR*VAR)+VAR"}[body]
    else:
        core = {"sumsq": "+/,/VAR*VAR", "prod": "*/,/VAR", "mixed": "+/,/(VAR*VAR)+VAR"}[body]
    pre = []
    if form in ("ag-literal", "nabla-literal"):
        pre.append("f::{hook(%s)}" % core.replace("VAR", "x"))
        pre.append("p::%s" % lit)                      # a bystander variable with the same contents
        expr = ("f:>%s" % lit) if form == "ag-literal" else ("%s∇f" % lit)
        fcall = "f(%s)" % lit
    elif form in ("ag-symbol", "nabla-symbol"):
        pre.append("f::{hook(%s)}" % core.replace("VAR", "x"))
        pre.append("p::%s" % lit)
        expr = "f:>p" if form == "ag-symbol" else "p∇f"
        fcall = "f(p)"
    elif form in ("jac-literal", "jac-symbol-point"):
        pre.append("g::{hook(x*x)}")
        pre.append("p::%s" % lit)
        expr = ("%s∂g" % lit) if form == "jac-literal" else "p∂g"
        fcall = "g(p)"
    elif form in ("multi", "multi-dup"):
        pre.append("w::%s" % lit)
        pre.append("b::0.7")
        pre.append("c::[2.3 1.1]")
        pre.append("loss::{hook((%s)+(b*b)+(+/c*c))}" % core.replace("VAR", "w"))
        # a parameter list may name a symbol twice (tied weights, a typo): still no variable may change
        expr = "loss:>[w b c]" if form == "multi" else "loss:>[w b w]"
        fcall = "loss()"
    else:  # multi-jac
        pre.append("w::%s" % lit)
        pre.append("b::[0.7 2.3]")
        pre.append("g::{hook((+/,/w*w)*b)}")
        expr = "[w b]∂g" if form == "multi-jac" else "[w w b]∂g"
        fcall = "g()"
    return k, state, pre, expr, fcall


def run_case(ctx, case):
    res = {"nontrivial": False, "counters": {}, "violations": [], "key": repr(case)}
    cnt = res["counters"]
    k, state, pre, expr, fcall = _setup(case)
    for s in pre:
        r = kl.ev(k, s)
        if r[0] != "ok":
            res["counters"]["setup_failed"] = 1
            res["show"] = {"pre": pre, "error": r[1:]}
            return res
    base = "%s|%s|%s" % (case["form"], case["param"], case["backend"])
    show = {"program": "; ".join(pre), "expr": expr}
    res["show"] = show
    s0 = _snap(k)
    f0 = kl.ev(k, fcall)
    f0c = _fp(f0[1]) if f0[0] == "ok" else ("err", f0[1])
    s0b = _snap(k)
    if _diff(s0, s0b):
        res["harness_error"] = "calling the function itself changed a variable: %r" % (_diff(s0, s0b),)
        return res

    def check(label, faultclass):
        s1 = _snap(k)
        cnt["snapshots_compared"] = cnt.get("snapshots_compared", 0) + 1
        res["nontrivial"] = True
        d = _diff(s0, s1)
        if d:
            n, kind, what = d[0]
            role = "parameter" if n in ("p", "w", "b", "c") else "other"
            res["violations"].append({"sig": "%s|%s|variable-%s|%s" % (base, faultclass, kind, role), "what": "after %s (%s): variable %s %s" % (expr, label, n, what), "detail": show})
            return False
        state["fail_at"] = None
        f1 = kl.ev(k, fcall)
        f1c = _fp(f1[1]) if f1[0] == "ok" else ("err", f1[1])
        if f1c != f0c:
            res["violations"].append({"sig": "%s|%s|function-value-changed" % (base, faultclass), "what": "after %s (%s): %s was %r, now %r" % (expr, label, fcall, f0c[:3], f1c[:3]), "detail": show})
            return False
        return True

    if case["fault"] == "sweep":
        state["n"], state["fail_at"] = 0, None
        r = kl.ev(k, expr)
        n_evals = state["n"]
        cnt["clean_runs"] = 1
        show["clean_result"] = r[0]
        show["loss_evaluations"] = n_evals
        if not check("clean run, result %s" % r[0], "clean"):
            return res
        if n_evals == 0:
            return res
        ks = list(range(1, n_evals + 1))
        if len(ks) > 12:
            ks = sorted(set(ks[:6] + [n_evals // 2, n_evals - 1, n_evals]))
        for kk in ks:
            state["n"], state["fail_at"] = 0, kk
            r = kl.ev(k, expr)
            state["fail_at"] = None
            cnt["faulted_runs"] = cnt.get("faulted_runs", 0) + 1
            pos = "first" if kk == 1 else ("last" if kk == n_evals else "middle")
            if not check("loss raised at its evaluation #%d of %d, operator %s" % (kk, n_evals, "raised" if r[0] == "err" else "returned"), "raise-at-" + pos):
                return res
    elif case["fault"] == "non-scalar":
        # a loss that returns a vector where a scalar is required
        name = "f" if case["form"] not in ("multi", "multi-dup") else "loss"
        if case["form"] in ("jac-literal", "jac-symbol-point", "multi-jac", "multi-jac-dup"):
            return res
        var = "x" if name == "f" else "w"
        kl.ev(k, "%s::{hook([1.0 2.0]*%s)}" % (name, "+/,/" + var))
        s0.update(_snap(k))
        f0 = kl.ev(k, fcall)
        f0c = _fp(f0[1]) if f0[0] == "ok" else ("err", f0[1])
        r = kl.ev(k, expr)
        cnt["faulted_runs"] = cnt.get("faulted_runs", 0) + 1
        check("non-scalar loss, operator %s" % ("raised" if r[0] == "err" else "returned"), "non-scalar")
    else:
        name = {"multi": "loss", "multi-dup": "loss", "multi-jac": "g", "multi-jac-dup": "g", "jac-literal": "g", "jac-symbol-point": "g"}.get(case["form"], "f")
        var = "w" if case["form"] in ("multi", "multi-jac", "multi-dup", "multi-jac-dup") else "x"
        kl.ev(k, "%s::{hook((+/,/%s*%s)+nosuchname(1))}" % (name, var, var))
        s0.update(_snap(k))
        f0 = kl.ev(k, fcall)
        f0c = _fp(f0[1]) if f0[0] == "ok" else ("err", f0[1])
        r = kl.ev(k, expr)
        cnt["faulted_runs"] = cnt.get("faulted_runs", 0) + 1
        check("loss references an unknown name, operator %s" % ("raised" if r[0] == "err" else "returned"), "unknown-name")
    return res
