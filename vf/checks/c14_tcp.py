"""One real-TCP race scenario of C14 in its own process (server + client interpreters, loopback).
usage: c14_tcp.py '<case json>'  -> prints 'VFRESULT <json>'"""
import json
import os
import random
import socket
import sys
import threading
import time


def main():
    case = json.loads(sys.argv[1])
    from vf.core import env
    env.setup_paths()
    import io
    from klongpy.repl import create_repl
    import klongpy.sys_fn_ipc as ipc

    # ---------------------------------------------------------------- seeded yield injection
    rng = random.Random(case["yseed"])
    TOOL = sys.monitoring.DEBUGGER_ID
    sys.monitoring.use_tool_id(TOOL, "vf-yield")
    targets = [ipc.NetworkClient.call, ipc.NetworkClient._listen, ipc.NetworkClient._run, ipc.NetworkClient._cleanup_pending_responses,
               ipc.NetworkClient.close, ipc.NetworkClient.cleanup, ipc.NetworkClient._stop, ipc.TcpServerHandler.shutdown_server,
               ipc.ReaderWriterConnectionProvider.close, ipc.HostPortConnectionProvider.close]
    hits = {"n": 0, "sleeps": 0}
    lock = threading.Lock()

    def on_line(code, line):
        with lock:
            hits["n"] += 1
            r = rng.random()
        if r < 0.10:
            hits["sleeps"] += 1
            time.sleep(0)
        elif r < 0.14:
            hits["sleeps"] += 1
            time.sleep(rng.choice([0.0005, 0.002, 0.005]))
    sys.monitoring.register_callback(TOOL, sys.monitoring.events.LINE, on_line)
    for fn in targets:
        sys.monitoring.set_local_events(TOOL, fn.__code__, sys.monitoring.events.LINE)

    devnull = open(os.devnull, "w")
    real_out, real_err = sys.stdout, sys.stderr
    sys.stdout = sys.stderr = devnull
    out = {"violations": [], "counters": {}, "observed": {}, "accounted": False}
    try:
        S, sl = create_repl()
        C, cl = create_repl()
        s = socket.socket()
        s.bind(("127.0.0.1", 0))
        port = s.getsockname()[1]
        s.close()
        S(".srv(%d)" % port)
        S["slow"] = lambda x: (time.sleep(0.15), x)[1]
        for _ in range(100):
            try:
                C("f::.cli(%d)" % port)
                break
            except Exception:
                time.sleep(0.05)
        nc = C["f"]
        results = {}

        from klongpy.types import KGSym

        def message(text):
            # The callers run in several threads.  Evaluating f(...) through the one client interpreter from several threads at
            # once would mix their argument frames (the interpreter is not thread-safe, which is not this property's subject), so
            # each thread hands the NetworkClient exactly the message that f(...) would build: a function call or a program text.
            if text.startswith("f(:slow,,"):
                return ipc.KGRemoteFnCall(KGSym("slow"), [int(text[len("f(:slow,,"):-1])])
            if text.startswith("f(:nosuch,,"):
                return ipc.KGRemoteFnCall(KGSym("nosuch"), [1])
            assert text.startswith('f("') and text.endswith('")')
            return text[3:-2]

        def caller(i, text, want):
            try:
                results[i] = ("ret", nc.call(message(text)))
            except BaseException as e:
                results[i] = ("raise", type(e).__name__)
        kind, pending = case["kind"], case["pending"]
        threads = []
        wants = {}
        for i in range(pending):
            if kind in ("clic-while-pending", "srv0-while-pending"):
                text, want = 'f(:slow,,%d)' % (1000 + i), 1000 + i
            else:
                text, want = 'f("%d+1")' % (2000 + i), 2001 + i
            wants[i] = want
            th = threading.Thread(target=caller, args=(i, text, want), daemon=True)
            threads.append(th)
        for th in threads:
            th.start()
        closer = {}
        if kind == "server-eval-fails":
            th = threading.Thread(target=caller, args=("bad", 'f("nosuchfn(1;2")', None), daemon=True)
            th.start()
            threads.append(th)
            wants["bad"] = "must-raise"
        elif kind == "server-missing-symbol":
            # a call of a function the server does not have: the server must answer with an error (or drop the connection), also when
            # nothing else is going on there
            if pending == 0 or rng.random() < 0.5:
                time.sleep(0.4)         # let the server fall idle first
            th = threading.Thread(target=caller, args=("bad", 'f(:nosuch,,1)', None), daemon=True)
            th.start()
            threads.append(th)
            wants["bad"] = "must-raise"
        elif kind == "clic-while-pending":
            time.sleep(rng.choice([0, 0.01, 0.05]))

            def do_close():
                try:
                    closer["r"] = ("ret", C(".clic(f)"))
                except BaseException as e:
                    closer["r"] = ("raise", type(e).__name__)
            tc = threading.Thread(target=do_close, daemon=True)
            tc.start()
            tc.join(40)
            if tc.is_alive():
                out["violations"].append({"sig": "tcp|clic-hangs|pending:%d" % pending, "what": ".clic(f) did not return within 40 s with %d calls pending" % pending, "detail": case})
        elif kind == "call-after-clic":
            for th in threads:
                th.join(30)
            try:
                C(".clic(f)")
            except Exception:
                pass
            th = threading.Thread(target=caller, args=("late", 'f("1")', None), daemon=True)
            th.start()
            threads.append(th)
            wants["late"] = "must-raise"
        elif kind == "srv0-while-pending":
            time.sleep(rng.choice([0, 0.01, 0.05]))
            try:
                S(".srv(0)")
            except Exception as e:
                out["observed"]["srv0"] = "raised " + type(e).__name__
            time.sleep(0.3)
            th = threading.Thread(target=caller, args=("late", 'f("1")', None), daemon=True)
            th.start()
            threads.append(th)
            wants["late"] = "must-raise-or-hang-free"
        deadline = time.time() + 40
        for th in threads:
            th.join(max(0.1, deadline - time.time()))
        names = list(range(pending)) + [k for k in wants if not isinstance(k, int)]
        for name, th in zip(names, threads):
            if th.is_alive():
                gone = nc._run_exit_event.is_set() or not nc.running
                # after .srv(0) returned there is no server task left that could answer: logically hung as well
                if kind == "srv0-while-pending":
                    gone = True
                # the server finished the (failing) lookup long ago: 40 s without an answer or a dropped connection is a hang
                if kind == "server-missing-symbol" and name == "bad":
                    gone = True
                if gone:
                    import traceback
                    diag = {"client_running": nc.running, "client_writer_is_none": nc.writer is None, "client_pending": len(nc.pending_responses),
                            "client_run_exited": nc._run_exit_event.is_set(), "server_connections": len(ipc._ipc_tcp_server.connections),
                            "server_task_is_none": ipc._ipc_tcp_server.task is None}
                    import gc, asyncio
                    transports, tasks = [], []
                    try:
                        for o in gc.get_objects():
                            if type(o).__name__ == "_SelectorSocketTransport":
                                proto = o.get_protocol()
                                ptask = getattr(proto, "_task", None)
                                transports.append({"closing": o.is_closing(), "sock": str(o.get_extra_info("sockname")), "peer": str(o.get_extra_info("peername")),
                                                   "paused": getattr(o, "_paused", None), "server_side": getattr(o, "_server", None) is not None,
                                                   "protocol": type(proto).__name__, "handler_task": repr(ptask)[:400],
                                                   "handler_exception": (repr(ptask.exception()) if ptask is not None and ptask.done() and not ptask.cancelled() else None),
                                                   "proto_transport_set": getattr(proto, "_transport", None) is not None, "proto_cb_none": getattr(proto, "_client_connected_cb", 0) is None,
                                                   "proto_writer_none": getattr(proto, "_stream_writer", None) is None,
                                                   "loop": ("server.io" if o._loop is S[".system"]["ioloop"] else "client.io" if o._loop is C[".system"]["ioloop"] else repr(o._loop)[:80]),
                                                   "loop_ready_len": len(o._loop._ready), "loop_thread": o._loop._thread_id, "registered_reader": (o._sock_fd in o._loop._selector.get_map()) if o._sock_fd != -1 else None,
                                                   "reader_eof": getattr(getattr(proto, "_stream_reader", None), "_eof", None),
                                                   "reader_buffer": len(getattr(getattr(proto, "_stream_reader", None), "_buffer", b"") or b"")})
                        for lp in {S["ioloop"] if False else None} - {None}:
                            pass
                        for name, interp in (("server", S), ("client", C)):
                            for lpname in ("ioloop", "klongloop"):
                                lp = interp[".system"][lpname]
                                for t in asyncio.all_tasks(lp):
                                    tasks.append("%s.%s: %s" % (name, lpname, repr(t)[:300]))
                    except Exception as e:
                        tasks.append("diagnostics failed: %r" % (e,))
                    diag["transports"] = transports
                    diag["tasks"] = tasks
                    stacks = {}
                    names_by_id = {t.ident: t.name for t in threading.enumerate()}
                    for tid, fr in sys._current_frames().items():
                        stacks[names_by_id.get(tid, str(tid))] = [ln.strip().replace("\n", " | ")[:200] for ln in traceback.format_stack(fr)[-7:]]
                    out["violations"].append({"sig": "tcp|hang|%s|%s" % (kind, "late" if name == "late" else "pending"), "what": "caller %s still blocked 40 s after the scenario although the client's listener has exited" % name,
                                              "detail": dict(case, diagnostics=diag, stacks=stacks)})
                else:
                    out["counters"]["inconclusive_blocked_callers"] = 1
                continue
            out["counters"]["calls_accounted"] = out["counters"].get("calls_accounted", 0) + 1
            r = results.get(name)
            want = wants[name]
            if isinstance(want, int):
                if r[0] == "ret":
                    try:
                        ok = int(r[1]) == want
                    except Exception:
                        ok = False
                    if not ok:
                        out["violations"].append({"sig": "tcp|foreign-answer|%s" % kind, "what": "caller %s expected %s, got %r" % (name, want, r[1]), "detail": case})
            elif want == "must-raise" and r[0] == "ret":
                out["violations"].append({"sig": "tcp|returned-instead-of-raising|%s|%s" % (kind, name), "what": "call %s returned %r" % (name, r[1]), "detail": case})
        out["accounted"] = True
        out["observed"].update({str(a): list(b)[:2] if not isinstance(b[1], (list,)) else [b[0], str(b[1])] for a, b in results.items()})
        out["observed"] = {a: [str(x) for x in b] for a, b in out["observed"].items() if isinstance(b, list)}
        out["counters"]["yield_points_hit"] = hits["n"]
        out["counters"]["yields_injected"] = hits["sleeps"]
        out["counters"]["tcp_scenarios"] = 1
        if kind == "call-after-clic" or kind == "srv0-while-pending":
            out["counters"]["late_calls"] = 1
    except BaseException as e:
        out["counters"]["tcp_harness_exception:" + type(e).__name__] = 1
    finally:
        sys.stdout, sys.stderr = real_out, real_err
    print("VFRESULT " + json.dumps(out, default=str))
    sys.stdout.flush()
    os._exit(0)


if __name__ == "__main__":
    main()
