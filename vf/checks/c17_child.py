"""Child process of C17: runs the real KeyValueStorage through a scripted sequence of sets.
usage: c17_child.py script.json     (script: root, payload_dir, ops [[key, value_index]..], kill_at)
Markers on stdout delimit the sets (they are visible in the strace log).
With kill_at = N the process SIGKILLs itself at the N-th file-operation boundary inside
klongpy.db.file_cache (interposed module-level open / os.makedirs / os.fsync)."""
import json
import os
import signal
import sys


def main():
    script = json.load(open(sys.argv[1]))
    from vf.core import env
    env.setup_paths()
    from vf.checks.c17 import make_value
    from klongpy.db.sys_fn_kvs import KeyValueStorage
    from klongpy.db.helpers import serialize_obj
    import klongpy.db.file_cache as fc

    kill_at = script.get("kill_at")
    state = {"n": 0}

    def boundary(name):
        state["n"] += 1
        if kill_at is not None and state["n"] == kill_at:
            os.write(1, ("VFMARK KILL %d %s\n" % (state["n"], name)).encode())
            os.kill(os.getpid(), signal.SIGKILL)

    if kill_at is not None or script.get("count_boundaries"):
        real_open = open

        class F:
            def __init__(self, f):
                self._f = f

            def write(self, b):
                r = self._f.write(b)
                boundary("after-write")
                return r

            def fileno(self):
                return self._f.fileno()

            def read(self, *a):
                return self._f.read(*a)

            def flush(self):
                r = self._f.flush()
                boundary("after-flush")
                return r

            def __enter__(self):
                return self

            def __exit__(self, *a):
                self._f.close()
                boundary("after-close")
                return False

            def close(self):
                self._f.close()
                boundary("after-close")

        def vopen(path, mode="r", *a, **kw):
            if "w" in mode or "a" in mode:
                boundary("before-open")
                f = real_open(path, mode, *a, **kw)
                boundary("after-open")
                return F(f)
            return real_open(path, mode, *a, **kw)

        class OSProxy:
            def __getattr__(self, n):
                return getattr(os, n)

            def makedirs(self, *a, **kw):
                boundary("before-makedirs")
                r = os.makedirs(*a, **kw)
                boundary("after-makedirs")
                return r

            def fsync(self, fd):
                r = os.fsync(fd)
                boundary("after-fsync")
                return r

        fc.open = vopen
        fc.os = OSProxy()

    store = KeyValueStorage(script["root"])
    for i, (key, vi) in enumerate(script["ops"]):
        v = make_value(vi)
        data = serialize_obj(v)
        with open(os.path.join(script["payload_dir"], "%d.bin" % i), "wb") as f:
            f.write(data)
        os.write(1, ("VFMARK BEGIN %d\n" % i).encode())
        store.set(key, v)
        os.write(1, ("VFMARK END %d\n" % i).encode())
    os.write(1, ("VFMARK DONE %d\n" % state["n"]).encode())


if __name__ == "__main__":
    main()
    sys.stdout.flush()
    os._exit(0)
