"""C17 - a completed key-value set survives a crash; an interrupted one harms no other.

The real KeyValueStorage runs in a child under strace; the recorded syscall trace
(mkdir / openat+O_TRUNC / write / fsync / close) is cut at every prefix and combined with every
allowed loss of unsynced data under the persistence model of vf/ref/persist.py; each crash image
is materialised and read by a fresh real KeyValueStorage.  Additionally the child is really
SIGKILLed at every file-operation boundary and the surviving directory is read.
"""
import json
import os
import random
import shutil
import subprocess
import sys

from vf.core import env
from vf.core.canon import canon, same, brief

PROPERTY = "C17"
LEVEL = "fault_enumeration"
RULE = ("case = one script of 1-6 sets (new key, overwrite, nested new directories, alternating keys, values below and above the 8 KiB file buffer); "
        "every prefix of its recorded syscall trace x loss choice {all unsynced lost, everything kept, truncation only, 1-byte prefix, half} x persistence "
        "model {weak: an fsync commits earlier metadata, strict: a new entry needs a directory fsync} is materialised and read back; plus a real SIGKILL "
        "at every file-operation boundary. Distinct = distinct (script, prefix, choice, model) image; non-trivial = the image was read back and judged.")
ASSUMPTIONS = ["persistence model of vf/ref/persist.py (unsynced data: lost / kept / byte prefix; unsynced O_TRUNC may or may not have happened; entry durability per model)",
               "strace reports the syscalls of all threads in order (-f); 'set has returned' = the END marker written by the caller after set() returned",
               "pickle output is deterministic, so write payloads are reconstructed from the value"]
MIN_COUNTS = {"quick": {"nontrivial": 300, "fsyncs_seen": 6, "writes_seen": 6, "acknowledged_reads": 200, "real_kills": 20},
              "thorough": {"nontrivial": 3000, "fsyncs_seen": 60, "writes_seen": 60, "acknowledged_reads": 3000, "real_kills": 300}}
CASE_TIMEOUT = 900
MIN_SHARD = 1
SHARD_TIMEOUT = {"quick": 1500, "thorough": 7200}

KEYS = ["k", "other", "d1/k", "d1/d2/deep", "d3/x", "k.tmp", "d1/k.tmp", "k~", "k.bak", "k.new"]


def make_value(i):
    table = [
        "small",                                  # 0  a few bytes
        list(range(50)),                          # 1  ~200 bytes
        "x" * 3000,                               # 2  below the buffer size
        "y" * 9000,                               # 3  just above 8 KiB
        list(range(20000)),                       # 4  ~60 KiB
        {"a": 1, "b": [1, 2, 3]},                 # 5
        "z" * 300000,                             # 6  300 kB
        "",                                       # 7  empty string
        "second",                                 # 8
        [1.5, 2.5],                               # 9
    ]
    return table[i % len(table)]


def _scripts(tier, seed):
    fixed = [
        [["k", 0]],
        [["k", 0], ["k", 8]],
        [["d1/d2/deep", 1]],
        [["k", 0], ["other", 1], ["k", 2], ["other", 8]],
        [["k", 3], ["other", 4]],
        [["k", 0], ["d1/k", 1], ["k", 6], ["d1/d2/deep", 2], ["other", 5]],
        [["d3/x", 6], ["d3/x", 0]],
        [["k", 7], ["other", 9], ["k", 1]],
        [["d1/k", 2], ["d1/d2/deep", 3], ["d1/k", 9], ["k", 5]],
        [["other", 4], ["k", 2], ["other", 0], ["d3/x", 1], ["k", 8], ["other", 7]],
        [["d3/x", 0], ["d1/d2/deep", 8], ["d3/x", 3], ["d1/d2/deep", 0]],
        # bystander keys whose names are what a scratch copy of another key's file is commonly called
        [["k.tmp", 0], ["k", 1], ["k~", 8], ["k", 2]],
        [["d1/k.tmp", 5], ["d1/k", 1], ["k.bak", 0], ["k.new", 9], ["k", 3]],
        [["k", 0], ["k.tmp", 1], ["k", 8], [".k.swp", 9], ["k.lock", 0], ["k", 5]],
    ]
    if tier == "quick":
        return fixed
    rng = random.Random(17000 + seed)
    out = list(fixed)
    for _ in range(52):
        n = rng.randint(1, 6)
        out.append([[rng.choice(KEYS), rng.randrange(10)] for _ in range(n)])
    return out


def cases(tier, seed):
    return [{"ops": s} for s in _scripts(tier, seed)]


def init_shard(tier, seed):
    from vf.mon import fstrace
    return {"strace": fstrace.strace_available(), "dir": env.mkscratch("c17")}


def finish_shard(ctx):
    shutil.rmtree(ctx["dir"], ignore_errors=True)
    return {}


def _run_child(ctx, script, trace=None):
    sp = os.path.join(ctx["dir"], "script.json")
    json.dump(script, open(sp, "w"))
    argv = [env.PY, os.path.join(env.VERIF, "vf", "checks", "c17_child.py"), sp]
    if trace:
        from vf.mon import fstrace
        return fstrace.run_traced(argv, trace, env=env.child_env(), timeout=600)
    return subprocess.run(argv, env=env.child_env(), capture_output=True, text=True, timeout=600)


def _read_all(root, keys):
    """Fresh real KeyValueStorage over a directory; returns {key: ('ok', canon) | ('err', type)}."""
    from klongpy.db.sys_fn_kvs import KeyValueStorage
    st = KeyValueStorage(root)
    out = {}
    for k in keys:
        try:
            out[k] = ("ok", canon(st.get(k)))
        except BaseException as e:
            if isinstance(e, (KeyboardInterrupt, SystemExit)):
                raise
            out[k] = ("err", type(e).__name__)
    try:
        st.cache.executor.shutdown(wait=False)
    except Exception:
        pass
    return out


def _materialise(base, files, dirs, root):
    shutil.rmtree(base, ignore_errors=True)
    os.makedirs(base)
    for d in sorted(dirs):
        os.makedirs(os.path.join(base, os.path.relpath(d, root)), exist_ok=True)
    for p, data in files.items():
        q = os.path.join(base, os.path.relpath(p, root))
        os.makedirs(os.path.dirname(q), exist_ok=True)
        with open(q, "wb") as f:
            f.write(data)


def run_case(ctx, case):
    from vf.mon import fstrace
    from vf.ref.persist import Model
    res = {"nontrivial": False, "counters": {}, "violations": [], "keys": []}
    cnt = res["counters"]
    if not ctx["strace"]:
        res["harness_error"] = "strace is not available"
        return res
    ops = case["ops"]
    root = os.path.join(ctx["dir"], "root")
    pdir = os.path.join(ctx["dir"], "payload")
    for d in (root, pdir):
        shutil.rmtree(d, ignore_errors=True)
    os.makedirs(pdir)
    trace = os.path.join(ctx["dir"], "trace.txt")
    r = _run_child(ctx, {"root": root, "payload_dir": pdir, "ops": ops}, trace=trace)
    if "VFMARK DONE" not in r.stdout:
        res["harness_error"] = "traced child did not finish: rc=%s %s" % (r.returncode, (r.stderr or "")[-400:])
        return res
    events = fstrace.parse(trace, root)
    payloads = [open(os.path.join(pdir, "%d.bin" % i), "rb").read() for i in range(len(ops))]
    values = [canon(make_value(vi)) for _, vi in ops]
    cnt["fsyncs_seen"] = sum(1 for e in events if e["t"] == "fsync")
    cnt["writes_seen"] = sum(1 for e in events if e["t"] == "write")
    cnt["trace_events"] = len(events)
    shapes = []
    # ----------------------------------------------------------------- walk the trace
    model = Model(root)
    cur = None                  # index of the set in flight
    offs = 0
    completed = {}              # key -> value canon of its last completed set
    img_root = os.path.join(ctx["dir"], "image")
    keys_all = sorted({k for k, _ in ops})
    seen_img = set()
    last = "start"
    per_set_sync = {}
    first_viol = {}
    for ei, ev in enumerate(events):
        if ev["t"] == "marker":
            parts = ev["text"].split()
            if parts[1] == "BEGIN":
                cur, offs = int(parts[2]), 0
                last = "begin"
            elif parts[1] == "END":
                i = int(parts[2])
                completed[ops[i][0]] = values[i]
                cur = None
                last = "between-sets"
            if parts[1] != "END":
                continue
        sl = None
        if ev["t"] == "write" and cur is not None:
            sl = payloads[cur][offs: offs + ev["n"]]
            offs += ev["n"]
            per_set_sync.setdefault(cur, []).append("write")
        if ev["t"] == "fsync" and cur is not None:
            per_set_sync.setdefault(cur, []).append("fsync")
        if ev["t"] != "marker":
            model.apply(ev, sl)
            last = "after-" + ev["t"] if cur is not None else "between-sets"
            shapes.append(ev["t"])
        inflight_key = ops[cur][0] if cur is not None else None
        for mdl in ("weak", "strict"):
            for choice in ("lost", "all", "trunc", "one", "half"):
                files, dirs = model.image(mdl, choice)
                fp = (mdl, tuple(sorted((p, len(b), hash(b)) for p, b in files.items())), tuple(sorted(dirs)), tuple(sorted(completed)), inflight_key)
                if fp in seen_img:
                    continue
                seen_img.add(fp)
                _materialise(img_root, files, dirs, root)
                got = _read_all(img_root, keys_all)
                res["keys"].append("%s|%d|%s|%s" % (json.dumps(ops), ei, mdl, choice))
                cnt["images_read"] = cnt.get("images_read", 0) + 1
                for key, want in completed.items():
                    if key == inflight_key:
                        continue          # the key being written may be affected
                    cnt["acknowledged_reads"] = cnt.get("acknowledged_reads", 0) + 1
                    g = got[key]
                    outcome = None
                    if g[0] == "err":
                        outcome = "raises:" + g[1]
                    elif g[1] == ["U"]:
                        outcome = "absent"
                    elif same(g[1], want, "exact"):
                        outcome = "other-value"
                    if outcome:
                        role = "bystander" if inflight_key is not None else "acknowledged"
                        node = model.nodes.get(os.path.join(root, key))
                        entry = "entry-synced" if (node and (node.entry_strict if mdl == "strict" else node.entry_weak)) else "entry-never-synced"
                        sig = "%s|%s|%s|%s|%s|%s" % (mdl, role, last, choice, outcome, entry)
                        if sig not in first_viol:
                            first_viol[sig] = {"sig": sig, "what": "after trace event #%d (%s) with unsynced data '%s' under the %s model, key %s reads %s instead of %s" % (
                                ei, ev["t"], choice, mdl, key, g[1] if g[0] == "err" else brief(g[1], 40), brief(want, 40)),
                                "detail": {"ops": ops, "event_index": ei, "events_tail": [e["t"] + ":" + os.path.basename(e.get("path", "")) for e in events[max(0, ei - 6): ei + 1]]}}
    res["nontrivial"] = cnt.get("images_read", 0) > 0
    # every set must have produced a write and an fsync of the key file, data before sync (observation, the oracle above decides)
    cnt["sets_traced"] = len(ops)
    res["violations"] += list(first_viol.values())
    # ----------------------------------------------------------------- real kills
    r0 = _run_child(ctx, {"root": os.path.join(ctx["dir"], "kroot0"), "payload_dir": pdir, "ops": ops, "count_boundaries": True})
    nb = 0
    for line in r0.stdout.splitlines():
        if line.startswith("VFMARK DONE"):
            nb = int(line.split()[2])
    shutil.rmtree(os.path.join(ctx["dir"], "kroot0"), ignore_errors=True)
    kill_points = list(range(1, nb + 1))
    if len(kill_points) > 14:
        rng = random.Random(len(ops) * 7 + nb)
        kill_points = sorted(rng.sample(kill_points, 14))
    for kp in kill_points:
        kroot = os.path.join(ctx["dir"], "kroot")
        shutil.rmtree(kroot, ignore_errors=True)
        rk = _run_child(ctx, {"root": kroot, "payload_dir": pdir, "ops": ops, "kill_at": kp})
        done, infl, where = {}, None, "?"
        for line in rk.stdout.splitlines():
            p = line.split()
            if len(p) >= 3 and p[0] == "VFMARK":
                if p[1] == "BEGIN":
                    infl = int(p[2])
                elif p[1] == "END":
                    done[ops[int(p[2])][0]] = values[int(p[2])]
                    infl = None
                elif p[1] == "KILL":
                    where = p[3]
        if rk.returncode != -9:
            continue
        cnt["real_kills"] = cnt.get("real_kills", 0) + 1
        if not os.path.isdir(kroot):
            continue
        got = _read_all(kroot, keys_all)
        ik = ops[infl][0] if infl is not None else None
        for key, want in done.items():
            if key == ik:
                continue
            g = got[key]
            if g[0] == "err" or same(g[1], want, "exact"):
                res["violations"].append({"sig": "real-kill|%s|%s" % (where, "raises:" + g[1] if g[0] == "err" else "other-value"),
                                          "what": "after SIGKILL at boundary #%d (%s) key %s reads %s instead of %s" % (kp, where, key, g[1] if g[0] == "err" else brief(g[1], 40), brief(want, 40)),
                                          "detail": {"ops": ops, "kill_at": kp}})
        res["keys"].append("%s|kill%d" % (json.dumps(ops), kp))
    res["show"] = {"ops": ops, "trace_shape": shapes[:40], "images_read": cnt.get("images_read", 0), "kill_points": kill_points}
    res["evaluations"] = cnt.get("images_read", 0) + cnt.get("real_kills", 0)
    return res
