"""C18 - the file cache is linearizable under concurrent get, update and unload.

The real FileCache runs under the controlled scheduler of vf/mon/sched.py: its lock, its executor
and the module-level open / os of klongpy.db.file_cache are replaced (attribute assignment) by
scheduler-aware versions, so every interleaving at the granularity of lock acquisitions, task
submission / completion, future waits and file-system calls can be driven and replayed.  Complete
call/return histories are checked against a sequential register; at quiescence disk, cache and
accounting are compared.
"""
import itertools
import os
import random
import shutil
import hashlib

from vf.core import env

PROPERTY = "C18"
LEVEL = "exploration"
RULE = ("case = one cell (2-3 client threads each with 1-2 operations get/update/unload on 1-2 files, file initially present or missing, cache limit) x a batch "
        "of schedules chosen by a strategy (uniform random, sticky few-preemption random, depth-first enumeration with preemption bound 2); each execution runs "
        "the real FileCache from a fresh directory; its history is checked for a linearization, deadlock, foreign exceptions and final-state agreement. "
        "Distinct = distinct schedule trace (thread, yield-point label sequence) within a cell; non-trivial = execution completed and was judged.")
ASSUMPTIONS = ["the yield points (lock acquire/release, submit, future wait, open/read/write/close, exists/getsize/makedirs/fsync) are the only places where the cache's outcome can depend on the schedule",
               "interleavings finer than the yield points and beyond the preemption bound are not explored"]
MIN_COUNTS = {"quick": {"nontrivial": 2500, "distinct_schedules": 2500, "cells": 60, "clean_cell_executions": 800, "df_executions": 800},
              "thorough": {"nontrivial": 100000, "distinct_schedules": 40000, "cells": 300, "clean_cell_executions": 20000, "df_executions": 15000}}
CASE_TIMEOUT = 900
MIN_SHARD = 2

OPS = ["get", "update", "unload"]


def _programs(maxlen, files):
    out = []
    for n in range(1, maxlen + 1):
        for kinds in itertools.product(OPS, repeat=n):
            for fs in itertools.product(files, repeat=n):
                out.append([[k, f] for k, f in zip(kinds, fs)])
    return out


def cases(tier, seed):
    rng = random.Random(18000 + seed)
    out = []
    progs1 = _programs(2, ["f"])
    cells = []
    for a, b in itertools.combinations_with_replacement(range(len(progs1)), 2):
        cells.append({"threads": [progs1[a], progs1[b]], "initial": {"f": True}, "limit": "big"})
    # file initially missing, for the mixes that contain an update
    for a, b in itertools.combinations_with_replacement(range(len(progs1)), 2):
        if any(op[0] == "update" for op in progs1[a] + progs1[b]) and rng.random() < 0.3:
            cells.append({"threads": [progs1[a], progs1[b]], "initial": {"f": False}, "limit": "big"})
    nsched = 28 if tier == "quick" else 400
    for c in cells:
        # cells in which none of the listed load/write/unload races can occur get more schedules: they are
        # where a new defect is not masked by a known finding
        mult = 4 if (is_clean_cell(c) and not any(op[0] == "unload" for th in c["threads"] for op in th)) else 1
        out.append(dict(c, strategy="random", n=nsched * mult, salt=rng.randrange(10 ** 9)))
        out.append(dict(c, strategy="sticky", n=(nsched // 2) * mult, salt=rng.randrange(10 ** 9)))
    # exhaustive DFS with preemption bound on the smallest mixes
    small = [[["get", "f"]], [["update", "f"]], [["unload", "f"]]]
    for a, b in itertools.combinations_with_replacement(range(3), 2):
        out.append({"threads": [small[a], small[b]], "initial": {"f": True}, "limit": "big", "strategy": "dfs", "bound": 2, "n": 1500 if tier == "quick" else 30000, "salt": 0})
    # table-merge family (PandasDataFrameCache.update with its per-file append lock): see c18_df.py
    dfops = ["append", "read", "unload"]
    dfprogs = [[[k, "f"]] for k in dfops] + [[[k1, "f"], [k2, "f"]] for k1 in dfops for k2 in dfops]
    dfcells = []
    for a, b in itertools.combinations_with_replacement(range(len(dfprogs)), 2):
        kinds = [op[0] for op in dfprogs[a] + dfprogs[b]]
        if "append" not in kinds:
            continue
        dfcells.append({"kind": "df", "threads": [dfprogs[a], dfprogs[b]], "initial": {"f": rng.random() < 0.6}, "limit": "big"})
    dfcells.append({"kind": "df", "threads": [[["append", "f"]], [["append", "f"]], [["append", "f"]]], "initial": {"f": False}, "limit": "big"})
    dfcells.append({"kind": "df", "threads": [[["append", "f"], ["append", "f"]], [["append", "f"]], [["read", "f"]]], "initial": {"f": True}, "limit": "big"})
    ndf = 10 if tier == "quick" else 150
    for c in dfcells:
        two_appends = sum(1 for th in c["threads"] for op in th if op[0] == "append") >= 2
        out.append(dict(c, strategy="random", n=ndf * (3 if two_appends else 1), salt=rng.randrange(10 ** 9)))
        if two_appends:
            out.append(dict(c, strategy="sticky", n=ndf, salt=rng.randrange(10 ** 9)))
    out.append({"kind": "df", "threads": [[["append", "f"]], [["append", "f"]]], "initial": {"f": False}, "limit": "big", "strategy": "dfs", "bound": 2, "n": 400 if tier == "quick" else 20000, "salt": 0})
    out.append({"kind": "df", "threads": [[["append", "f"]], [["append", "f"]]], "initial": {"f": True}, "limit": "big", "strategy": "dfs", "bound": 2, "n": 400 if tier == "quick" else 20000, "salt": 0})
    if tier == "thorough":
        progs2 = _programs(1, ["f", "g"])
        for _ in range(150):
            th = [rng.choice(_programs(2, ["f", "g"])) for _ in range(rng.choice([2, 3]))]
            out.append({"threads": th, "initial": {"f": rng.random() < 0.8, "g": rng.random() < 0.5}, "limit": rng.choice(["big", "one", "two"]),
                        "strategy": rng.choice(["random", "sticky"]), "n": 300, "salt": rng.randrange(10 ** 9)})
        for a, b in itertools.combinations_with_replacement(range(len(progs1)), 2):
            if len(progs1[a]) + len(progs1[b]) <= 3:
                out.append({"threads": [progs1[a], progs1[b]], "initial": {"f": True}, "limit": "big", "strategy": "dfs", "bound": 2, "n": 6000, "salt": 0})
    return out


def init_shard(tier, seed):
    return {"dir": env.mkscratch("c18")}


def finish_shard(ctx):
    shutil.rmtree(ctx["dir"], ignore_errors=True)
    return {}


def opmix(case):
    return ("df:" if case.get("kind") == "df" else "") + "+".join(sorted(op[0] for th in case["threads"] for op in th))


def is_clean_cell(case):
    """Cells in which no get-triggered load can overlap an update (the known load/write races cannot occur)."""
    kinds = [op[0] for th in case["threads"] for op in th]
    if case.get("kind") == "df":
        return "read" not in kinds and "unload" not in kinds
    return not ("get" in kinds and "update" in kinds)


def execute(ctx, case, chooser, tag):
    """One controlled execution. Returns dict(history, trace, verdicts...)."""
    import klongpy.db.file_cache as fc
    from vf.mon import sched as S
    from vf.mon.lin import linearizations
    root = os.path.join(ctx["dir"], "run")
    shutil.rmtree(root, ignore_errors=True)
    os.makedirs(root)
    initial = {}
    for f, present in case["initial"].items():
        if present:
            data = ("init-%s" % f).encode() * 3
            with open(os.path.join(root, f), "wb") as fh:
                fh.write(data)
            initial[f] = data
        else:
            initial[f] = None
    valsize = 24
    limit = {"big": 10 ** 6, "one": valsize + 8, "two": 2 * valsize + 16}[case["limit"]]
    sch = S.Scheduler(chooser)
    had_open = "open" in fc.__dict__
    real_open, real_os = fc.__dict__.get("open"), fc.os
    sopen, osproxy = S.make_fs(sch, os)
    cache = fc.FileCache(max_memory=limit, root_path=root)
    try:
        cache.executor.shutdown(wait=False)
    except Exception:
        pass
    cache.file_futures_lock = S.SLock(sch, "futures")
    cache.executor = S.SExecutor(sch)
    fc.open = sopen
    fc.os = osproxy
    hist = []
    counter = [0]

    def client(ti, prog):
        def body():
            for oi, (kind, f) in enumerate(prog):
                rec = {"thread": ti, "op": None, "file": f, "call": sch.step, "ret": None, "res": None}
                hist.append(rec)
                try:
                    if kind == "get":
                        rec["op"] = ("get", None)
                        v = cache.get_file(f)
                        rec["res"] = ("val", bytes(v))
                    elif kind == "update":
                        counter[0] += 1
                        data = ("t%d-op%d-%s" % (ti, oi, f)).encode().ljust(valsize, b".")
                        rec["op"] = ("update", data)
                        r = cache.update_file(f, data)
                        rec["res"] = ("ok", bool(r))
                    else:
                        rec["op"] = ("unload", None)
                        cache.unload_file(f)
                        rec["res"] = ("ok", None)
                except FileNotFoundError:
                    rec["res"] = ("raise", "FileNotFoundError")
                except MemoryError:
                    rec["res"] = ("raise", "MemoryError")
                except BaseException as e:
                    rec["res"] = ("raise", type(e).__name__ + ":" + str(e)[:80])
                rec["ret"] = sch.step
        return body
    for ti, prog in enumerate(case["threads"]):
        sch.spawn("client%d" % ti, client(ti, prog))
    out = {"deadlock": None, "violations": []}
    try:
        sch.run()
    except S.Deadlock as d:
        out["deadlock"] = sch.deadlock
    finally:
        if had_open:
            fc.open = real_open
        else:
            del fc.open
        fc.os = real_os
    out["trace"] = [(n, l) for _, n, l in sch.trace]
    out["choices"] = list(sch.choices)
    out["preemptions"] = sch.preemptions
    out["history"] = hist
    mix = opmix(case)
    V = out["violations"]
    if out["deadlock"]:
        who = ",".join(sorted({"%s@%s" % (n.split(":")[0].rstrip("0123456789"), l) for n, l in out["deadlock"]}))
        V.append(("deadlock|%s" % mix, "no enabled thread: %s" % (out["deadlock"],)))
        return out
    # worker exceptions that nobody observed
    for t in sch.threads:
        if t.exc is not None:
            V.append(("thread-died:%s|%s" % (type(t.exc).__name__, mix), "%s died with %r" % (t.name, t.exc)))
    for r in hist:
        if r["res"] and r["res"][0] == "raise" and r["res"][1] not in ("FileNotFoundError", "MemoryError"):
            V.append(("raises:%s|%s" % (r["res"][1].split(":")[0], mix), "%s on %s raised %s" % (r["op"][0], r["file"], r["res"][1])))
    if V:
        return out
    # per file: linearizability + final state
    for f in case["initial"]:
        h = [r for r in hist if r["file"] == f and r["res"] is not None and r["res"] != ("raise", "MemoryError")]
        ok, finals, complete = linearizations(h, initial[f])
        if not complete:
            out["inconclusive"] = "linearizability search budget"
            continue
        gets = [r for r in h if r["op"][0] == "get" and r["res"][0] == "val"]
        written = {initial[f]} | {r["op"][1] for r in h if r["op"][0] == "update"}
        torn = [r for r in gets if r["res"][1] not in written]
        if torn:
            V.append(("torn-read|%s" % mix, "get of %s returned %r which no update ever wrote (initial %r)" % (f, torn[0]["res"][1], initial[f])))
            continue
        if not ok:
            V.append(("no-linearization|%s" % mix, "history of %s has no linearization: %s" % (f, [(r["thread"], r["op"][0], r["res"], r["call"], r["ret"]) for r in h])))
            continue
        # final state: disk == cache == last successful update in some linearization
        p = os.path.join(root, f)
        disk = open(p, "rb").read() if os.path.exists(p) else None
        if disk not in finals:
            V.append(("final-disk|%s" % mix, "file %s on disk holds %r, linearizations end with %r" % (f, disk, sorted(map(repr, finals)))))
            continue
        info = cache.file_futures.get(f)
        if info is not None:
            fut = info[-1]
            if not fut.done():
                V.append(("final-pending-future|%s" % mix, "entry of %s still has an unfinished future at quiescence" % f))
                continue
            try:
                cached = fut._res if fut._exc is None else ("exc", repr(fut._exc))
            except Exception as e:
                cached = ("exc", repr(e))
            if cached != disk:
                V.append(("final-cache!=disk|%s" % mix, "cached contents of %s %r differ from disk %r" % (f, cached, disk)))
                continue
            if info[0]:
                V.append(("final-writing-flag|%s" % mix, "entry of %s still marked as being written at quiescence" % f))
                continue
    if not V:
        claims = sum(int(i[1]) for i in cache.file_futures.values())
        held = 0
        for i in cache.file_futures.values():
            if i[-1].done() and i[-1]._exc is None and i[-1]._res is not None:
                held += len(i[-1]._res)
        if cache.current_memory_usage != claims or cache.current_memory_usage != held:
            V.append(("final-accounting|%s" % mix, "current_memory_usage=%s, recorded claims=%s, held bytes=%s" % (cache.current_memory_usage, claims, held)))
        elif cache.current_memory_usage > limit or cache.current_memory_usage < 0:
            V.append(("final-accounting-range|%s" % mix, "current_memory_usage=%s limit=%s" % (cache.current_memory_usage, limit)))
        names = [n for _, n in cache.file_access_times]
        if any(n not in cache.file_futures for n in names):
            V.append(("final-heap|%s" % mix, "access-time heap names an entry that is not cached"))
    return out


def run_case(ctx, case):
    from vf.mon import sched as S
    res = {"counters": {}, "violations": [], "keys": []}
    cnt = res["counters"]
    rng = random.Random(case["salt"])
    seen = set()
    sig_seen = {}
    n_done = 0
    mix = opmix(case)
    clean = is_clean_cell(case)
    dfs = S.DFS(case.get("bound", 2)) if case["strategy"] == "dfs" else None
    cellkey = "%s%s|%s|%s" % (case.get("kind", ""), repr(case["threads"]), sorted(case["initial"].items()), case["limit"])
    for it in range(case["n"]):
        if case["strategy"] == "random":
            ch = S.random_chooser(rng)
        elif case["strategy"] == "sticky":
            ch = S.sticky_chooser(rng, 0.2)
        else:
            ch = dfs.chooser()
        if case.get("kind") == "df":
            from vf.checks.c18_df import execute_df
            out = execute_df(ctx, case, ch, it)
            cnt["df_executions"] = cnt.get("df_executions", 0) + 1
            cnt["df_append_locks_created"] = cnt.get("df_append_locks_created", 0) + out.get("locks_created", 0)
        else:
            out = execute(ctx, case, ch, it)
        n_done += 1
        tkey = hashlib.sha1(repr(out["trace"]).encode()).hexdigest()[:16]
        if tkey not in seen:
            seen.add(tkey)
            res["keys"].append(cellkey + "|" + tkey)
        if out.get("inconclusive"):
            cnt["inconclusive_executions"] = cnt.get("inconclusive_executions", 0) + 1
        if clean:
            cnt["clean_cell_executions"] = cnt.get("clean_cell_executions", 0) + 1
        cnt["preemptions_total"] = cnt.get("preemptions_total", 0) + out["preemptions"]
        for sig, what in out["violations"]:
            if sig not in sig_seen:
                sig_seen[sig] = 1
                res["violations"].append({"sig": sig, "what": what, "detail": {"threads": case["threads"], "initial": case["initial"], "limit": case["limit"],
                                                                               "choices": out["choices"], "trace": ["%s@%s" % x for x in out["trace"]][:80],
                                                                               "history": [(r["thread"], r["op"][0] if r["op"] else None, repr(r["res"]), r["call"], r["ret"]) for r in out["history"]]}})
            else:
                sig_seen[sig] += 1
        if dfs is not None and not dfs.advance():
            cnt["dfs_cells_completed"] = cnt.get("dfs_cells_completed", 0) + 1
            break
    cnt["executions"] = n_done
    cnt["distinct_schedules"] = len(seen)
    cnt["cells"] = 1
    cnt["strategy:" + case["strategy"]] = n_done
    res["evaluations"] = n_done
    res["nontrivial"] = n_done > 0
    res["show"] = {"threads": case["threads"], "initial": case["initial"], "strategy": case["strategy"], "executions": n_done, "distinct_schedules": len(seen),
                   "violating_executions": sig_seen}
    return res
