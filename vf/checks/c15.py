"""C15 - timers tick once per interval until stopped, and stop for good.

The real .timer / .timerc run on a real asyncio loop driven by a virtual clock (vf/mon/vclock.py);
callbacks are Klong functions calling a harness callable that logs (virtual time, tick) and
performs the scripted action.  An offline checker applies the trace rules R1-R7 of DESIGN.md.
"""
import random
import time as _time

from vf.core import kl
from vf.mon.vclock import VirtualClock

PROPERTY = "C15"
LEVEL = "exploration"
RULE = ("case = one timer script: interval in {0,1,2,5} x start time (dyadic / non-dyadic) x per-tick (duration relative to the interval, return value, "
        "action none / cancel self / cancel other / redefine callback / raise) x scripted dispatch latency per wake-up (on the deadline, inside the clock "
        "resolution before it, later by less / more than one interval) x optional external cancellation time; the recorded (virtual time, tick, .timerc) "
        "trace is checked against rules R1-R7. Distinct = distinct script; non-trivial = at least one tick was observed and judged.")
ASSUMPTIONS = ["asyncio's SelectorEventLoop semantics (a timer handle runs when its deadline is < now + clock resolution)",
               "virtual clock resolution = time.get_clock_info('monotonic').resolution, as asyncio uses",
               "what a raising callback does to its timer is unspecified: after a raise only R1-R4 are checked"]
MIN_COUNTS = {"quick": {"nontrivial": 2000, "ticks_observed": 8000, "timerc_calls": 1500, "early_dispatches": 200, "late_dispatches": 400},
              "thorough": {"nontrivial": 60000, "ticks_observed": 250000, "timerc_calls": 40000, "early_dispatches": 6000, "late_dispatches": 12000}}
CASE_TIMEOUT = 120

RES = _time.get_clock_info("monotonic").resolution
DURS = [0.0, 0.25, 1.0, 2.5]
LATS = ["on", "early", "eps", "half", "late2.5"]
ACTIONS = ["none", "none", "none", "cancel_self", "cancel_other", "redefine", "raise"]
MAXTICKS = 40


def _gen(rng):
    interval = rng.choice([0, 1, 1, 2, 5])
    n = rng.randint(1, 8)
    ticks = []
    for i in range(n):
        a = rng.choice(ACTIONS)
        ticks.append({"dur": rng.choice(DURS), "ret": 0 if (rng.random() < 0.12) else 1, "action": a})
    # the script always ends: the tick after the last scripted one returns 0
    lat = [rng.choice(LATS) if rng.random() < 0.5 else "on" for _ in range(24)]
    return {"interval": interval, "start": rng.choice([1000.0, 1000.25, 1000.1, 1234.567]), "ticks": ticks, "lat": lat,
            "ext_cancel": (rng.choice([0.5, 1.0, 1.5, 2.0, 3.25, 7.0]) if rng.random() < 0.3 else None),
            "ext_cancel_twice": rng.random() < 0.5, "other": rng.random() < 0.6,
            # the named callback re-bound after .timer returned and before the first tick is due
            "redefine_before_first_tick": rng.random() < 0.15}


def cases(tier, seed):
    rng = random.Random(15000 + seed)
    n = 5000 if tier == "quick" else 135000
    return [_gen(rng) for _ in range(n)]


def init_shard(tier, seed):
    return {}


def _lat_value(name, interval):
    unit = interval if interval > 0 else 1.0
    return {"on": 0.0, "early": -RES / 2, "eps": 2.0 ** -10, "half": 0.5 * unit, "late2.5": 2.5 * unit}[name]


def run_case(ctx, case):
    res = {"nontrivial": False, "counters": {}, "violations": [], "key": repr(case)}
    cnt = res["counters"]
    interval = case["interval"]
    unit = interval if interval > 0 else 1.0
    vc = VirtualClock(start=case["start"], resolution=RES)
    vc.latencies = [_lat_value(x, interval) for x in case["lat"]]
    loop = vc.make_loop()
    k = kl.new()
    k[".system"] = {"klongloop": loop, "ioloop": loop}
    ev = []                     # the trace
    state = {"i": 0, "version": "A", "defined_version": "A", "raised": False, "stop_all": False}
    script = case["ticks"]

    def tick(version):
        i = state["i"]
        state["i"] += 1
        t0 = vc.now
        ev.append(("start", "t", i, t0, version, state["defined_version"]))
        sc = script[i] if i < len(script) else {"dur": 0.0, "ret": 0, "action": "none"}
        act = sc["action"]
        info = None
        if i >= MAXTICKS:
            loop.stop()
            ev.append(("end", "t", i, vc.now, 0, "forced-stop", None))
            return 0
        if act == "cancel_self":
            r = kl.ev(k, ".timerc(th)")
            info = r[1] if r[0] == "ok" else "err:" + r[1]
            ev.append(("timerc", "inside", "t", vc.now, info))
        elif act == "cancel_other" and case["other"]:
            r = kl.ev(k, ".timerc(oth)")
            info = r[1] if r[0] == "ok" else "err:" + r[1]
            ev.append(("timerc", "inside", "o", vc.now, info))
        elif act == "redefine":
            nv = "B" if state["defined_version"] == "A" else "A"
            kl.ev(k, "cb::{tick%s(0)}" % nv)
            state["defined_version"] = nv
        vc.advance(sc["dur"] * unit)
        if act == "raise":
            ev.append(("end", "t", i, vc.now, None, "raise", info))
            state["raised"] = True
            raise RuntimeError("scripted failure in tick %d" % i)
        ev.append(("end", "t", i, vc.now, sc["ret"], act, info))
        return sc["ret"]

    def otick(x):
        ev.append(("start", "o", None, vc.now, None, None))
        ev.append(("end", "o", None, vc.now, 1, "none", None))
        if sum(1 for e in ev if e[0] == "start" and e[1] == "o") > 3 * MAXTICKS:
            loop.stop()
            return 0
        return 1

    k["tickA"] = lambda x: tick("A")
    k["tickB"] = lambda x: tick("B")
    k["otick"] = otick
    kl.ev(k, "cb::{tickA(0)}")
    kl.ev(k, "ocb::{otick(0)}")
    r = kl.ev(k, 'th::.timer("t";%d;cb)' % interval)
    if r[0] != "ok":
        res["harness_error"] = "could not create timer: %r" % (r,)
        return res
    if case["other"]:
        kl.ev(k, 'oth::.timer("o";1;ocb)')
    if case.get("redefine_before_first_tick"):
        kl.ev(k, "cb::{tickB(0)}")
        state["defined_version"] = "B"
        cnt["redefined_before_first_tick"] = 1
    t_start = case["start"]
    horizon = t_start + (len(script) + 3) * (2.5 * unit + unit) + 8 * unit

    ext = []
    if case["ext_cancel"] is not None:
        def do_cancel():
            r = kl.ev(k, ".timerc(th)")
            ext.append(r[1] if r[0] == "ok" else "err:" + r[1])
            ev.append(("timerc", "outside", "t", vc.now, ext[-1]))
        loop.call_at(t_start + case["ext_cancel"] * unit, do_cancel)
        if case["ext_cancel_twice"]:
            loop.call_at(t_start + (case["ext_cancel"] + 0.75) * unit, do_cancel)

    # the loop's default exception handler only logs: silence it, remember that it happened
    loop.set_exception_handler(lambda l, c: ev.append(("loop-exception", str(c.get("exception")))))
    try:
        vc.run_until(horizon)
        # at the horizon cancel everything (records R5 for the final state too)
        fin = kl.ev(k, ".timerc(th)")
        ev.append(("timerc", "final", "t", vc.now, fin[1] if fin[0] == "ok" else "err:" + fin[1]))
        if case["other"]:
            kl.ev(k, ".timerc(oth)")
    finally:
        try:
            loop.close()
        except Exception:
            pass

    # ------------------------------------------------------------------ the checker
    ticks = [e for e in ev if e[0] == "start" and e[1] == "t"]
    ends = {e[2]: e for e in ev if e[0] == "end" and e[1] == "t"}
    cnt["ticks_observed"] = len(ticks)
    cnt["timerc_calls"] = sum(1 for e in ev if e[0] == "timerc")
    cnt["early_dispatches"] = sum(1 for w in vc.wakeups if w[2] < 0)
    cnt["late_dispatches"] = sum(1 for w in vc.wakeups if w[2] >= 0.4 * unit)
    cnt["interval:%d" % interval] = 1
    res["show"] = {"interval": interval, "start": case["start"], "script": [(t["dur"], t["ret"], t["action"]) for t in script],
                   "latencies": case["lat"][:8], "ext_cancel": case["ext_cancel"],
                   "trace": [(e[0], e[1], round(e[3] - t_start, 6)) + tuple(e[4:]) for e in ev if e[0] in ("start", "end", "timerc") and e[1] != "o"][:30]}
    if ticks:
        res["nontrivial"] = True
    maxlat = max([0.0] + [w[2] for w in vc.wakeups])
    latclass = "early" if any(w[2] < 0 for w in vc.wakeups) else ("late" if maxlat >= 0.4 * unit else ("eps" if maxlat > 0 else "on"))

    def bad(rule, what, action="-"):
        res["violations"].append({"sig": "%s|lat:%s|action:%s|interval:%s" % (rule, latclass, action, "0" if interval == 0 else "pos"),
                                  "what": what, "detail": res["show"]})

    # liveness bookkeeping along the trace
    live = True              # timer t is live from creation
    dead_since = None
    dead_why = None
    raised = False
    prev_end = None
    prev_k = 0
    for e in ev:
        if e[0] == "start" and e[1] == "t":
            i, t, version, defined = e[2], e[3], e[4], e[5]
            if not live:
                bad("R4", "tick #%d at +%.6f after the timer was stopped (%s at +%.6f)" % (i, t - t_start, dead_why, dead_since - t_start), dead_why)
                return res
            if prev_end is not None and t < prev_end - 1e-12:
                bad("R3", "tick #%d started at +%.6f before the previous callback returned at +%.6f" % (i, t - t_start, prev_end - t_start))
                return res
            if version != defined and not raised:
                bad("R6", "tick #%d ran callback definition %s while %s is the current definition" % (i, version, defined), "redefine")
                return res
            if interval > 0:
                kk = int((t - t_start + 1e-6) // interval)
                base = prev_end if prev_end is not None else t_start
                # first boundary after the previous callback ended; a callback ending exactly on a boundary
                # (within rounding) may count that boundary as missed or not - both readings are accepted
                k_lo = int((base - t_start - 1e-6) // interval) + 1
                k_hi = int((base - t_start + 1e-6) // interval) + 1
                if prev_end is None:
                    k_lo = k_hi = 1
                b_lo, b_hi = t_start + k_lo * interval, t_start + k_hi * interval
                if t < b_lo - RES - 1e-9:
                    if prev_end is not None and kk == prev_k:
                        bad("R2", "two ticks for boundary %d: tick #%d at +%.9f, previous callback ended at +%.9f" % (kk, i, t - t_start, prev_end - t_start),
                            ends[i - 1][5] if (i - 1) in ends else "-")
                    else:
                        bad("R1", "tick #%d at +%.9f is before the next boundary +%.6f" % (i, t - t_start, b_lo - t_start),
                            ends[i - 1][5] if (i - 1) in ends else "-")
                    return res
                if t > b_hi + maxlat + 1e-6 and not raised:
                    bad("R7", "tick #%d came at +%.6f although boundary +%.6f was due (largest scripted dispatch latency %.4f)" % (i, t - t_start, b_hi - t_start, maxlat))
                    return res
                prev_k = kk
        elif e[0] == "end" and e[1] == "t":
            prev_end = e[3]
            if e[5] == "raise":
                raised = True
            elif not e[4] and live:
                live, dead_since, dead_why = False, e[3], "return-0"
        elif e[0] == "timerc" and e[2] == "t":
            t, result = e[3], e[4]
            if raised:
                continue
            if isinstance(result, str):
                bad("R5", ".timerc raised/returned %r" % (result,), "timerc-" + e[1])
                return res
            want = 1 if live else 0
            if int(result) != want:
                bad("R5", ".timerc (%s) returned %s at +%.6f for a %s timer" % (e[1], result, t - t_start, "live" if live else "dead"), "timerc-" + e[1])
                return res
            if live:
                live, dead_since, dead_why = False, t, "timerc-" + e[1]
    # bounded progress at the end: a live, non-raised timer must have ticked for every due boundary before the horizon
    if interval > 0 and not raised:
        # find the state just before the final timerc
        last_end = prev_end if prev_end is not None else t_start
        final = [e for e in ev if e[0] == "timerc" and e[1] == "final"]
        was_live_at_horizon = bool(final) and not isinstance(final[0][4], str) and int(final[0][4]) == 1
        if was_live_at_horizon:
            knext = int((last_end - t_start + 1e-6) // interval) + 1
            bnext = t_start + knext * interval
            if bnext + maxlat + 1e-6 < horizon - unit:
                bad("R7", "timer live until the horizon but no tick for boundary +%.6f (last callback ended +%.6f)" % (bnext - t_start, last_end - t_start))
    return res
