"""Linearizability checker for one file of the cache: a sequential register.

op kinds: ("get", None) -> ("val", bytes) | ("raise", "FileNotFoundError")
          ("update", bytes) -> ("ok", True|False)      False = reported failure: must have no effect
          ("unload", None) -> ("ok", None)              no effect on the register value
Histories are tiny (<= 8 operations per file): exhaustive search over the orders that respect
real time (Wing & Gong).  Every written value is unique, so a read identifies its write.
"""


def _apply(state, op, res):
    """Sequential spec. Returns (legal, new_state)."""
    kind, arg = op
    if kind == "get":
        if state is None:
            return (res == ("raise", "FileNotFoundError")), state
        return (res == ("val", state)), state
    if kind == "update":
        if res == ("ok", True):
            return True, arg
        if res == ("ok", False):
            return True, state           # reported failure: no effect
        return False, state
    if kind == "unload":
        return (res[0] == "ok"), state
    return False, state


def linearizations(history, initial, want_final=None, limit=200000):
    """history: list of dicts {op:(kind,arg), res:(..), call:int, ret:int}.
    Returns (found, final_states): found = some legal linearization exists; final_states = set of
    register values reachable at the end over all legal linearizations (for the final-state check)."""
    n = len(history)
    finals = set()
    found = [False]
    budget = [limit]

    def rec(done, state):
        if budget[0] <= 0:
            return
        budget[0] -= 1
        if len(done) == n:
            found[0] = True
            finals.add(state)
            return
        # minimal ops: those not preceded (in real time) by another pending op
        pending = [i for i in range(n) if i not in done]
        for i in pending:
            if any(history[j]["ret"] < history[i]["call"] for j in pending if j != i):
                continue
            ok, ns = _apply(state, history[i]["op"], history[i]["res"])
            if ok:
                rec(done | {i}, ns)

    rec(frozenset(), initial)
    return found[0], finals, budget[0] > 0
