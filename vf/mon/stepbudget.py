"""Deterministic step budget with sys.monitoring (3.12): counts PY_START and backward JUMP events
in the code objects of chosen modules only (local events), raises BudgetExceeded inside the
monitored code when the budget is crossed.  No wall clock involved."""
import sys
import types

TOOL = sys.monitoring.PROFILER_ID
E = sys.monitoring.events


class BudgetExceeded(BaseException):
    def __init__(self, where, count):
        super().__init__("step budget exceeded in %s after %d events" % (where, count))
        self.where = where
        self.count = count


def _code_objects(mod):
    seen, out = set(), []

    def walk(co):
        if id(co) in seen:
            return
        seen.add(id(co))
        out.append(co)
        for c in co.co_consts:
            if isinstance(c, types.CodeType):
                walk(c)

    for name, obj in vars(mod).items():
        if isinstance(obj, types.FunctionType) and obj.__module__ == mod.__name__:
            walk(obj.__code__)
        elif isinstance(obj, type) and obj.__module__ == mod.__name__:
            for n2, o2 in vars(obj).items():
                f = o2
                if isinstance(f, (staticmethod, classmethod)):
                    f = f.__func__
                if isinstance(f, property):
                    f = f.fget
                if isinstance(f, types.FunctionType):
                    walk(f.__code__)
    return out


class StepBudget:
    def __init__(self, modules, extra_modules=()):
        """modules: their events always count. extra_modules: monitored too, but their events count only
        in runs started with wide=True (used to bound evaluation, not parsing)."""
        self.codes = []
        for m in modules:
            self.codes += _code_objects(m)
        self.narrow = {id(c) for c in self.codes}
        for m in extra_modules:
            for c in _code_objects(m):
                if id(c) not in self.narrow:
                    self.codes.append(c)
        self.wide = False
        self.count = 0
        self.limit = None
        self.tripped = None
        self.active = False
        self.last = {}

    def install(self):
        if sys.monitoring.get_tool(TOOL) is None:
            sys.monitoring.use_tool_id(TOOL, "vf-stepbudget")
        sys.monitoring.register_callback(TOOL, E.PY_START, self._on_start)
        sys.monitoring.register_callback(TOOL, E.JUMP, self._on_jump)
        for co in self.codes:
            sys.monitoring.set_local_events(TOOL, co, E.PY_START | E.JUMP)

    def uninstall(self):
        for co in self.codes:
            sys.monitoring.set_local_events(TOOL, co, 0)
        sys.monitoring.register_callback(TOOL, E.PY_START, None)
        sys.monitoring.register_callback(TOOL, E.JUMP, None)
        sys.monitoring.free_tool_id(TOOL)

    def _tick(self, code):
        if not self.active:
            return
        if not self.wide and id(code) not in self.narrow:
            return
        self.count += 1
        if self.count > self.limit:
            if self.tripped is None:
                self.tripped = code.co_name
            raise BudgetExceeded(self.tripped, self.count)

    def _on_start(self, code, offset):
        self._tick(code)

    def _on_jump(self, code, src, dst):
        if dst < src:           # loop back-edge
            self._tick(code)

    def run(self, limit, fn, *args, wide=False):
        """Run fn under a budget. Returns (status, value, events): status ok / raised / budget."""
        self.count, self.limit, self.tripped, self.active, self.wide = 0, limit, None, True, wide
        try:
            v = fn(*args)
            return "ok", v, self.count
        except BudgetExceeded as b:
            return "budget", b.where, self.count
        except RecursionError:
            return "raised", "RecursionError", self.count
        except BaseException as e:
            if isinstance(e, (KeyboardInterrupt, SystemExit)):
                raise
            if self.tripped is not None:
                return "budget", self.tripped, self.count
            return "raised", type(e).__name__, self.count
        finally:
            self.active = False
