"""Controlled cooperative scheduler over real threads.

Exactly one managed thread runs at a time.  Managed threads hand control back at *yield points*
(lock acquire/release, task submission, future wait, file-system call); at every yield point the
scheduler picks the next enabled thread according to a replayable choice strategy.  A state with
unfinished threads none of which is enabled is a deadlock, decided logically.
"""
import threading


class Deadlock(Exception):
    pass


class _T:
    def __init__(self, name, fn):
        self.name = name
        self.fn = fn
        self.go = threading.Event()
        self.finished = False
        self.label = "start"
        self.enabled = lambda: True
        self.thread = None
        self.exc = None


class Scheduler:
    def __init__(self, chooser, max_steps=5000):
        self.chooser = chooser              # f(step, [names of enabled threads], labels) -> index
        self.threads = []
        self.by_ident = {}
        self.arrived = threading.Event()
        self.trace = []                     # (step, thread, label)
        self.choices = []                   # chosen indices (the replayable schedule)
        self.enabled_sizes = []
        self.step = 0
        self.max_steps = max_steps
        self.deadlock = None
        self.current = None
        self.preemptions = 0

    # ------------------------------------------------------------- called by the harness
    def spawn(self, name, fn):
        t = _T(name, fn)
        self.threads.append(t)

        def body():
            self.by_ident[threading.get_ident()] = t
            t.go.wait()
            t.go.clear()
            try:
                t.fn()
            except BaseException as e:          # the managed function handles its own errors
                t.exc = e
            t.finished = True
            t.label = "finished"
            self.arrived.set()
        t.thread = threading.Thread(target=body, name=name, daemon=True)
        t.thread.start()
        return t

    def run(self):
        """Drive all spawned threads to completion. Raises Deadlock."""
        while True:
            live = [t for t in self.threads if not t.finished]
            if not live:
                return
            en = [t for t in live if self._safe_enabled(t)]
            if not en:
                self.deadlock = [(t.name, t.label) for t in live]
                raise Deadlock(self.deadlock)
            if self.step >= self.max_steps:
                self.deadlock = [("step-limit", str(self.step))]
                raise Deadlock(self.deadlock)
            idx = self.chooser(self.step, [t.name for t in en], [t.label for t in en], self.current.name if self.current else None)
            idx = max(0, min(idx, len(en) - 1))
            t = en[idx]
            if self.current is not None and self.current is not t and not self.current.finished and self._safe_enabled(self.current):
                self.preemptions += 1
            self.choices.append(idx)
            self.enabled_sizes.append(len(en))
            self.trace.append((self.step, t.name, t.label))
            self.step += 1
            self.current = t
            self.arrived.clear()
            t.go.set()
            if not self.arrived.wait(60):
                self.deadlock = [("harness-timeout", t.name + ":" + t.label)]
                raise Deadlock(self.deadlock)

    def _safe_enabled(self, t):
        try:
            return bool(t.enabled())
        except Exception:
            return True

    # ------------------------------------------------------------- called by managed threads
    def me(self):
        return self.by_ident.get(threading.get_ident())

    def yield_point(self, label, enabled=None):
        t = self.me()
        if t is None:
            return                      # not a managed thread (harness): no scheduling
        t.label = label
        t.enabled = enabled or (lambda: True)
        self.arrived.set()
        t.go.wait()
        t.go.clear()
        t.enabled = lambda: True


# ---------------------------------------------------------------------- interposed primitives

class SLock:
    def __init__(self, sched, name="lock"):
        self.s = sched
        self.owner = None
        self.name = name

    def acquire(self, blocking=True, timeout=-1):
        t = self.s.me()
        if t is None:
            # harness thread at a quiescent point
            self.owner = "harness"
            return True
        self.s.yield_point("acquire:" + self.name, lambda: self.owner is None)
        assert self.owner is None
        self.owner = t.name
        return True

    def release(self):
        self.owner = None
        self.s.yield_point("released:" + self.name)

    def locked(self):
        return self.owner is not None

    def __enter__(self):
        self.acquire()
        return self

    def __exit__(self, *a):
        self.release()
        return False


class SFuture:
    def __init__(self, sched):
        self.s = sched
        self._done = False
        self._res = None
        self._exc = None

    def done(self):
        return self._done

    def result(self, timeout=None):
        if not self._done:
            self.s.yield_point("future-wait", lambda: self._done)
        else:
            self.s.yield_point("future-ready")
        if self._exc is not None:
            raise self._exc
        return self._res

    def exception(self, timeout=None):
        if not self._done:
            self.s.yield_point("future-wait", lambda: self._done)
        return self._exc


class SExecutor:
    def __init__(self, sched):
        self.s = sched
        self.n = 0

    def submit(self, fn, *args, **kw):
        f = SFuture(self.s)
        self.n += 1
        name = "worker%d:%s" % (self.n, getattr(fn, "__name__", "task"))

        def body():
            try:
                f._res = fn(*args, **kw)
            except BaseException as e:
                f._exc = e
            f._done = True
        self.s.spawn(name, body)
        self.s.yield_point("submitted")
        return f

    def shutdown(self, wait=True, **kw):
        pass


class SFile:
    def __init__(self, sched, f, path, mode):
        self.s, self.f, self.path, self.mode = sched, f, path, mode

    def read(self, *a):
        self.s.yield_point("file-read")
        return self.f.read(*a)

    def write(self, b):
        self.s.yield_point("file-write")
        return self.f.write(b)

    def flush(self):
        return self.f.flush()

    def fileno(self):
        return self.f.fileno()

    def close(self):
        self.s.yield_point("file-close")
        self.f.close()

    def __enter__(self):
        return self

    def __exit__(self, *a):
        self.close()
        return False


def make_fs(sched, real_os):
    """open() and an os proxy whose calls are yield points."""
    real_open = open

    def sopen(path, mode="r", *a, **kw):
        sched.yield_point("open:" + mode)
        return SFile(sched, real_open(path, mode, *a, **kw), path, mode)

    class PathProxy:
        def __getattr__(self, n):
            return getattr(real_os.path, n)

        def exists(self, p):
            sched.yield_point("exists")
            return real_os.path.exists(p)

        def getsize(self, p):
            sched.yield_point("getsize")
            return real_os.path.getsize(p)

    class OSProxy:
        path = PathProxy()

        def __getattr__(self, n):
            return getattr(real_os, n)

        def makedirs(self, *a, **kw):
            sched.yield_point("makedirs")
            return real_os.makedirs(*a, **kw)

        def fsync(self, fd):
            sched.yield_point("fsync")
            return real_os.fsync(fd)

    return sopen, OSProxy()


# ---------------------------------------------------------------------- choice strategies

def random_chooser(rng):
    def ch(step, names, labels, current):
        return rng.randrange(len(names))
    return ch


def sticky_chooser(rng, switch_prob):
    """Keeps running the current thread; switches with the given probability (few preemptions)."""
    def ch(step, names, labels, current):
        if current in names and rng.random() > switch_prob:
            return names.index(current)
        return rng.randrange(len(names))
    return ch


def replay_chooser(choices):
    it = iter(choices)

    def ch(step, names, labels, current):
        try:
            return next(it)
        except StopIteration:
            return 0
    return ch


class DFS:
    """Stateless depth-first enumeration of the choice tree with a preemption bound."""
    def __init__(self, bound):
        self.bound = bound
        self.prefix = []
        self.done = False
        self.count = 0

    def chooser(self):
        prefix = list(self.prefix)
        state = {"pre": 0}
        self._log = []
        log = self._log

        def ch(step, names, labels, current):
            cur_idx = names.index(current) if current in names else None
            if step < len(prefix):
                idx = prefix[step]
            else:
                idx = cur_idx if cur_idx is not None else 0
            # options available here under the preemption bound
            opts = []
            for i in range(len(names)):
                cost = 1 if (cur_idx is not None and i != cur_idx) else 0
                opts.append((i, cost))
            idx = max(0, min(idx, len(names) - 1))
            cost = 1 if (cur_idx is not None and idx != cur_idx) else 0
            log.append((idx, len(names), cur_idx, state["pre"]))
            state["pre"] += cost
            return idx
        return ch

    def advance(self):
        """Compute the next prefix from the last run's log. Returns False when exhausted."""
        log = self._log
        self.count += 1
        # find the deepest position where another untried alternative exists within the bound
        for pos in range(len(log) - 1, -1, -1):
            idx, n, cur_idx, pre = log[pos]
            # order of alternatives: current thread first, then the others ascending
            order = ([cur_idx] if cur_idx is not None else []) + [i for i in range(n) if i != cur_idx]
            k = order.index(idx)
            for nxt in order[k + 1:]:
                cost = 1 if (cur_idx is not None and nxt != cur_idx) else 0
                if pre + cost <= self.bound:
                    self.prefix = [l[0] for l in log[:pos]] + [nxt]
                    return True
        self.done = True
        return False
