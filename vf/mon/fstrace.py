"""Record the real file-system syscalls of a child process with strace and parse them.

Only calls that touch paths under a given root are kept, plus the child's marker writes to
stdout that delimit the operations of the script.
"""
import os
import re
import subprocess

SYSCALLS = "openat,open,creat,write,pwrite64,writev,fsync,fdatasync,close,mkdir,mkdirat,rename,renameat,renameat2,unlink,unlinkat,ftruncate,truncate,rmdir"
_LINE = re.compile(r"^(\d+)\s+(\w+)\((.*)\)\s+=\s+(-?\d+|\?)(.*)$")
_UNFIN = re.compile(r"^(\d+)\s+(\w+)\((.*) <unfinished \.\.\.>$")
_RESUM = re.compile(r"^(\d+)\s+<\.\.\. (\w+) resumed>(.*)\)\s+=\s+(-?\d+|\?)(.*)$")
_STR = re.compile(r'"((?:[^"\\]|\\.)*)"')


def strace_available():
    try:
        r = subprocess.run(["strace", "-V"], capture_output=True, text=True, timeout=20)
        return r.returncode == 0
    except Exception:
        return False


def run_traced(argv, trace_path, env=None, timeout=300, extra=None):
    cmd = ["strace", "-f", "-s", "64", "-o", trace_path, "-e", "trace=" + SYSCALLS] + (extra or []) + ["--"] + argv
    return subprocess.run(cmd, env=env, capture_output=True, text=True, timeout=timeout)


def _unescape(s):
    try:
        return bytes(s, "latin1").decode("unicode_escape")
    except Exception:
        return s


def parse(trace_path, root):
    """Returns a list of events (dicts) in trace order:
    marker {t:'marker', text} | open {t:'open', path, fd, trunc, creat, ok, dir} | write {t:'write', path, fd, n}
    | fsync {t:'fsync', path, fd, is_dir} | close | mkdir {path, ok} | rename {src,dst} | unlink {path} | truncate {path, n}"""
    root = os.path.abspath(root)
    fds = {}
    pending = {}
    events = []
    with open(trace_path, errors="replace") as f:
        for raw in f:
            raw = raw.rstrip("\n")
            m = _UNFIN.match(raw)
            if m:
                pending[(m.group(1), m.group(2))] = m.group(3)
                continue
            m = _RESUM.match(raw)
            if m:
                pid, name, rest, ret, tail = m.groups()
                args = pending.pop((pid, name), "") + rest
            else:
                m = _LINE.match(raw)
                if not m:
                    continue
                pid, name, args, ret, tail = m.groups()
            if ret == "?":
                continue
            ret = int(ret)
            strs = [_unescape(x) for x in _STR.findall(args)]
            if name in ("openat", "open", "creat"):
                if not strs:
                    continue
                path = os.path.abspath(strs[0]) if strs[0].startswith("/") else strs[0]
                flags = args
                if ret >= 0:
                    fds[ret] = path
                if path.startswith(root):
                    events.append({"t": "open", "path": path, "fd": ret, "ok": ret >= 0, "trunc": "O_TRUNC" in flags or name == "creat",
                                   "creat": "O_CREAT" in flags or name == "creat", "dir": "O_DIRECTORY" in flags, "wr": ("O_WRONLY" in flags or "O_RDWR" in flags or name == "creat")})
            elif name in ("write", "pwrite64", "writev"):
                fd = int(args.split(",")[0])
                if fd == 1 and strs and strs[0].startswith("VFMARK"):
                    events.append({"t": "marker", "text": strs[0].strip()})
                    continue
                path = fds.get(fd)
                if path and path.startswith(root) and ret >= 0:
                    events.append({"t": "write", "path": path, "fd": fd, "n": ret})
            elif name in ("fsync", "fdatasync"):
                fd = int(args.split(",")[0])
                path = fds.get(fd)
                if path and path.startswith(root) and ret == 0:
                    events.append({"t": "fsync", "path": path, "fd": fd})
            elif name == "close":
                try:
                    fd = int(args.split(",")[0])
                except ValueError:
                    continue
                path = fds.pop(fd, None)
                if path and path.startswith(root):
                    events.append({"t": "close", "path": path, "fd": fd})
            elif name in ("mkdir", "mkdirat"):
                if strs:
                    path = os.path.abspath(strs[0])
                    if path.startswith(root):
                        events.append({"t": "mkdir", "path": path, "ok": ret == 0})
            elif name in ("rename", "renameat", "renameat2"):
                if len(strs) >= 2 and ret == 0:
                    a, b = os.path.abspath(strs[0]), os.path.abspath(strs[1])
                    if a.startswith(root) or b.startswith(root):
                        events.append({"t": "rename", "src": a, "dst": b})
            elif name in ("unlink", "unlinkat", "rmdir"):
                if strs and ret == 0:
                    path = os.path.abspath(strs[0])
                    if path.startswith(root):
                        events.append({"t": "unlink", "path": path})
            elif name in ("ftruncate", "truncate"):
                if name == "ftruncate":
                    fd = int(args.split(",")[0])
                    path = fds.get(fd)
                    n = int(args.split(",")[1])
                else:
                    path = os.path.abspath(strs[0]) if strs else None
                    n = int(args.split(",")[-1])
                if path and path.startswith(root) and ret == 0:
                    events.append({"t": "truncate", "path": path, "n": n})
    return events
