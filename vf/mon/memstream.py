"""In-memory streams for the real IPC client: a real asyncio.StreamReader fed by the harness and a
writer object with the StreamWriter surface that parses the frames the code under test sends."""
import asyncio
import struct
import threading
import uuid
import pickle


class MemWriter:
    def __init__(self, loop):
        self.loop = loop
        self.buf = b""
        self.frames = []              # (msg_id, msg) in the order they were completely written
        self.closed = False
        self.cv = threading.Condition()
        self.fail_writes = False

    # ---- StreamWriter surface
    def write(self, data):
        if self.closed or self.fail_writes:
            raise ConnectionResetError("memory stream closed")
        with self.cv:
            self.buf += bytes(data)
            while len(self.buf) >= 20:
                n = struct.unpack("!I", self.buf[16:20])[0]
                if len(self.buf) < 20 + n:
                    break
                mid = uuid.UUID(bytes=self.buf[:16])
                try:
                    msg = pickle.loads(self.buf[20:20 + n])
                except Exception as e:
                    msg = ("<unpicklable>", repr(e))
                self.frames.append((mid, msg))
                self.buf = self.buf[20 + n:]
            self.cv.notify_all()

    async def drain(self):
        await asyncio.sleep(0)
        if self.closed or self.fail_writes:
            raise ConnectionResetError("memory stream closed")

    def close(self):
        with self.cv:
            self.closed = True
            self.cv.notify_all()

    def is_closing(self):
        return self.closed

    async def wait_closed(self):
        return None

    def get_extra_info(self, name, default=None):
        return ("mem", 0) if name == "peername" else default

    # ---- harness side
    def wait_frames(self, n, timeout=10.0):
        with self.cv:
            return self.cv.wait_for(lambda: len(self.frames) >= n, timeout)


class LoopThread:
    """An asyncio loop running in its own thread, owned by the harness."""
    def __init__(self, name, debug=False):
        self.loop = asyncio.new_event_loop()
        self.loop.set_debug(debug)
        self.loop.slow_callback_duration = 3600
        self.thread = threading.Thread(target=self._run, name=name, daemon=True)
        self.thread.start()

    def _run(self):
        asyncio.set_event_loop(self.loop)
        self.loop.run_forever()

    def call(self, fn, *a):
        """Run fn(*a) inside the loop thread and wait for it."""
        ev = threading.Event()
        box = {}

        def run():
            try:
                box["v"] = fn(*a)
            except BaseException as e:
                box["e"] = e
            ev.set()
        self.loop.call_soon_threadsafe(run)
        if not ev.wait(20):
            raise TimeoutError("loop thread did not run the callback")
        if "e" in box:
            raise box["e"]
        return box.get("v")

    def stop(self):
        try:
            self.loop.call_soon_threadsafe(self.loop.stop)
            self.thread.join(5)
        except Exception:
            pass


def fragments(data, pattern):
    """Cut data into pieces according to a named pattern."""
    n = len(data)
    if pattern == "whole" or n <= 1:
        return [data]
    if pattern == "bytes":
        return [data[i:i + 1] for i in range(n)]
    if pattern == "7":
        return [data[i:i + 7] for i in range(0, n, 7)]
    if pattern == "id|rest":
        return [data[:16], data[16:]]
    if pattern == "id+len|body":
        return [data[:20], data[20:]]
    if pattern == "split-id":
        return [data[:9], data[9:]]
    if pattern == "split-len":
        return [data[:18], data[18:]]
    if pattern == "split-body":
        m = 20 + max(1, (n - 20) // 2)
        return [data[:m], data[m:]]
    return [data]


PATTERNS = ["whole", "bytes", "7", "id|rest", "id+len|body", "split-id", "split-len", "split-body"]
