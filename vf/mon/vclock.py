"""A real asyncio.SelectorEventLoop driven by a virtual clock.

loop.time() reads the virtual clock; the selector's select(timeout) does not sleep but advances
the clock by timeout + latency(), where latency() is the scripted dispatch latency of the next
wake-up (0, a little early inside the loop's clock resolution, late by some amount).
call_soon / call_later / call_at / tasks / asyncio.sleep all run unchanged on it.
"""
import asyncio
import selectors


class _VSelector(selectors.BaseSelector):
    def __init__(self, owner):
        self._owner = owner
        self._real = selectors.DefaultSelector()

    def register(self, fileobj, events, data=None):
        return self._real.register(fileobj, events, data)

    def unregister(self, fileobj):
        return self._real.unregister(fileobj)

    def modify(self, fileobj, events, data=None):
        return self._real.modify(fileobj, events, data)

    def get_map(self):
        return self._real.get_map()

    def close(self):
        self._real.close()

    def select(self, timeout=None):
        o = self._owner
        if timeout is None:
            # nothing scheduled at all: the scenario is over
            o.loop.stop()
            return self._real.select(0)
        if timeout > 0:
            lat = o.next_latency(timeout)
            o.now += max(0.0, timeout + lat)
            o.wakeups.append((o.now, timeout, lat))
        return self._real.select(0)


class VirtualClock:
    def __init__(self, start=1000.0, resolution=2.0 ** -20):
        self.now = float(start)
        self.resolution = resolution
        self.latencies = []            # script: consumed one per timed wake-up, then default
        self.default_latency = 0.0
        self.wakeups = []
        self.loop = None

    def next_latency(self, timeout):
        if self.latencies:
            return self.latencies.pop(0)
        return self.default_latency

    def advance(self, dt):
        """Called from inside a callback to model a callback that takes dt seconds."""
        self.now += dt

    def make_loop(self):
        sel = _VSelector(self)
        loop = asyncio.SelectorEventLoop(sel)
        loop.time = lambda: self.now
        loop._clock_resolution = self.resolution
        self.loop = loop
        return loop

    def run_until(self, t_end):
        """Run the loop until virtual time t_end (or until nothing is scheduled)."""
        h = self.loop.call_at(t_end, self.loop.stop)
        try:
            self.loop.run_forever()
        finally:
            h.cancel()
