"""POSIX-style persistence model over a recorded syscall trace (the trusted base of C17).

 * file data written but not followed by fsync/fdatasync of that fd may be lost entirely, kept
   entirely, or kept as any byte prefix; an O_TRUNC not followed by fsync may or may not have happened;
 * a new directory entry (file or directory) is durable
     - strict model: only after the containing directory itself was fsynced;
     - weak model (ext4 data=ordered): after any later fsync (a journal commit covers earlier metadata).
"""
import os


class FileState:
    __slots__ = ("vol", "dur", "pend", "entry_weak", "entry_strict", "is_dir")

    def __init__(self, is_dir=False):
        self.vol = None if not is_dir else b""
        self.dur = None
        self.pend = []
        self.entry_weak = False
        self.entry_strict = False
        self.is_dir = is_dir


class Model:
    def __init__(self, root):
        self.root = os.path.abspath(root)
        self.nodes = {}

    def _node(self, path, is_dir=False):
        n = self.nodes.get(path)
        if n is None:
            n = self.nodes[path] = FileState(is_dir)
        return n

    def apply(self, ev, payload_slice=None):
        t = ev["t"]
        if t == "mkdir":
            if ev["ok"]:
                n = self._node(ev["path"], True)
                n.vol = b""
        elif t == "open":
            if not ev["ok"] or ev["dir"]:
                return
            n = self.nodes.get(ev["path"])
            if n is None or n.vol is None:
                if ev["creat"]:
                    n = self._node(ev["path"])
                    n.vol = b""
            elif ev["trunc"] and ev["wr"]:
                n.pend.append(("trunc",))
                n.vol = b""
        elif t == "write":
            n = self.nodes.get(ev["path"])
            if n is not None and n.vol is not None:
                data = payload_slice if payload_slice is not None else b"?" * ev["n"]
                n.vol = n.vol + data
                n.pend.append(("write", data))
        elif t == "truncate":
            n = self.nodes.get(ev["path"])
            if n is not None and n.vol is not None:
                n.vol = n.vol[:ev["n"]]
                n.pend.append(("trunc",))
        elif t == "fsync":
            n = self.nodes.get(ev["path"])
            if n is not None and n.is_dir:
                for p, c in self.nodes.items():
                    if os.path.dirname(p) == ev["path"] and c.vol is not None:
                        c.entry_strict = True
            elif n is not None and n.vol is not None:
                n.dur = n.vol
                n.pend = []
            # weak model: a journal commit makes every earlier entry durable
            for c in self.nodes.values():
                if c.vol is not None:
                    c.entry_weak = True
        elif t == "unlink":
            n = self.nodes.get(ev["path"])
            if n is not None:
                n.vol = None
                n.pend = []
        elif t == "rename":
            n = self.nodes.pop(ev["src"], None)
            if n is not None:
                self.nodes[ev["dst"]] = n

    def inflight_files(self):
        return [p for p, n in self.nodes.items() if not n.is_dir and n.vol is not None and (n.pend or n.dur is None)]

    def image(self, model, choice):
        """-> {path: bytes} for files (and a set of directories) in one allowed crash state.
        choice: lost | all | trunc | one | half   (applied to files with unsynced data)"""
        files, dirs = {}, set()

        def entry_ok(p):
            n = self.nodes[p]
            return n.entry_strict if model == "strict" else n.entry_weak

        def dir_chain_ok(p):
            d = os.path.dirname(p)
            while d.startswith(self.root) and d != self.root:
                n = self.nodes.get(d)
                if n is not None and n.is_dir and not (choice == "all" or entry_ok(d)):
                    return False
                d = os.path.dirname(d)
            return True

        for p, n in self.nodes.items():
            if n.vol is None:
                continue
            if n.is_dir:
                if choice == "all" or entry_ok(p):
                    dirs.add(p)
                continue
            if not dir_chain_ok(p):
                continue
            if choice == "all":
                files[p] = n.vol
                continue
            if not entry_ok(p):
                continue               # the entry itself was never made durable: the file is absent
            base = n.dur if n.dur is not None else b""
            if choice == "lost" or not n.pend:
                files[p] = base
                continue
            cur = base
            written = b"".join(x[1] for x in n.pend if x[0] == "write")
            had_trunc = any(x[0] == "trunc" for x in n.pend)
            if had_trunc:
                cur = b""
            if choice == "trunc":
                files[p] = cur
            elif choice == "one":
                files[p] = cur + written[:1]
            elif choice == "half":
                files[p] = cur + written[: len(written) // 2]
            else:
                files[p] = base
        return files, dirs
