"""Definitional expansion of Klong's adverbs as plain folds / maps over a supplied callable.

`ap(*args)` applies the verb to runtime values (it is the real interpreter applying just that
verb, see vf/checks/c02.py), so a defect of a verb cannot show up here: only the adverb's wiring
and shortcuts are judged.  UNSPEC marks operand shapes the manual does not define.
"""


class Unspec(Exception):
    pass


def _is_str(v):
    from klongpy.types import KGSym, KGChar
    return isinstance(v, str) and not isinstance(v, (KGSym, KGChar))


def is_listlike(v):
    import numpy as np
    return isinstance(v, (list, np.ndarray)) and getattr(v, "ndim", 1) > 0


def is_empty(v):
    return (is_listlike(v) or _is_str(v)) and len(v) == 0


def is_atom(v):
    if isinstance(v, dict):
        return False
    if is_listlike(v) or _is_str(v):
        return len(v) == 0
    return True


def elems(v):
    from klongpy.types import KGChar
    if _is_str(v):
        return [KGChar(c) for c in v]
    return [v[i] for i in range(len(v))]


class Model:
    def __init__(self, mklist, equal, truth, max_steps=200):
        self.mklist = mklist        # python list of results -> Klong list value
        self.equal = equal          # Klong match on two runtime values
        self.truth = truth          # Klong truth of a runtime value
        self.max_steps = max_steps

    def _collect(self, results, from_string):
        from klongpy.types import KGChar
        if from_string and results and all(isinstance(r, str) for r in results):
            return "".join(results)
        return self.mklist(results)

    # ---- monadic-verb adverbs
    def each(self, ap, a):
        if isinstance(a, dict):
            return ("multiset", [ap(self.mklist([k, v])) for k, v in a.items()])
        if is_empty(a):
            return a
        if is_atom(a):
            return ap(a)
        return self._collect([ap(x) for x in elems(a)], _is_str(a))

    def each_index(self, ap, a):
        if is_empty(a):
            return a
        if is_atom(a):
            return ap(self.mklist([0, a]))
        return self.mklist([ap(self.mklist([i, x])) for i, x in enumerate(elems(a))])

    def iterate(self, ap, n, b):
        if not isinstance(n, int) or n < 0:
            raise Unspec()
        for _ in range(n):
            b = ap(b)
        return b

    def scan_iterating(self, ap, n, b):
        if not isinstance(n, int) or n <= 0:
            raise Unspec()          # n = 0: "a list of intermediate results" is not spelled out
        r = [b]
        for _ in range(n):
            b = ap(b)
            r.append(b)
        return self.mklist(r)

    def converge(self, ap, a):
        x = a
        for _ in range(self.max_steps):
            y = ap(x)
            if self.equal(x, y):
                return y
            x = y
        raise Unspec()

    def scan_converging(self, ap, a):
        r = [a]
        x = a
        for _ in range(self.max_steps):
            y = ap(x)
            if self.equal(x, y):
                return self.mklist(r)
            r.append(y)
            x = y
        raise Unspec()

    def while_(self, ap, pred, b):
        for _ in range(self.max_steps):
            if not self.truth(pred(b)):
                return b
            b = ap(b)
        raise Unspec()

    def scan_while(self, ap, pred, b):
        r = []
        for _ in range(self.max_steps):
            if not self.truth(pred(b)):
                return self.mklist(r)
            r.append(b)
            b = ap(b)
        raise Unspec()

    # ---- dyadic-verb adverbs
    def each2(self, ap, a, b):
        if is_empty(a) or is_empty(b):
            if is_listlike(a) or is_listlike(b):
                return self.mklist([])
            raise Unspec()
        if is_atom(a) and is_atom(b):
            return ap(a, b)
        if is_atom(a) or is_atom(b) or isinstance(a, dict) or isinstance(b, dict):
            raise Unspec()
        ea, eb = elems(a), elems(b)
        n = min(len(ea), len(eb))
        return self._collect([ap(ea[i], eb[i]) for i in range(n)], _is_str(a) and _is_str(b))

    def each_left(self, ap, a, b):
        if isinstance(b, dict):
            raise Unspec()
        if is_empty(b):
            if is_listlike(b):
                return self.mklist([])
            raise Unspec()
        if is_atom(b):
            return ap(a, b)
        return self.mklist([ap(a, x) for x in elems(b)])

    def each_right(self, ap, a, b):
        if isinstance(b, dict):
            raise Unspec()
        if is_empty(b):
            if is_listlike(b):
                return self.mklist([])
            raise Unspec()
        if is_atom(b):
            return ap(b, a)
        return self.mklist([ap(x, a) for x in elems(b)])

    def each_pair(self, ap, a):
        if isinstance(a, dict):
            raise Unspec()
        if is_atom(a) or len(a) == 1:
            return a
        e = elems(a)
        return self._collect([ap(e[i], e[i + 1]) for i in range(len(e) - 1)], False)

    def over(self, ap, a):
        if isinstance(a, dict):
            raise Unspec()
        if is_atom(a):
            return a
        e = elems(a)
        r = e[0]
        for x in e[1:]:
            r = ap(r, x)
        return r

    def over_neutral(self, ap, a, b):
        if isinstance(b, dict):
            raise Unspec()
        if is_empty(b):
            return a
        if is_atom(b):
            return ap(a, b)
        r = a
        for x in elems(b):
            r = ap(r, x)
        return r

    def scan_over(self, ap, a):
        if isinstance(a, dict):
            raise Unspec()
        if is_empty(a):
            raise Unspec()
        if is_atom(a):
            return self.mklist([a])          # the manual: +\1 --> [1]
        e = elems(a)
        r = [e[0]]
        for x in e[1:]:
            r.append(ap(r[-1], x))
        return self.mklist(r)

    def scan_over_neutral(self, ap, a, b):
        if isinstance(b, dict) or is_empty(b):
            raise Unspec()
        e = [b] if is_atom(b) else elems(b)
        r = [a]
        for x in e:
            r.append(ap(r[-1], x))
        return self.mklist(r)
