"""Reference model of Klong's primitive verbs over canonical values (vf/core/canon.py).

Written from the reference-manual text that the repository carries in the docstrings of
klongpy/monads.py and klongpy/dyads.py.  Every verb has an explicit domain; outside it the model
answers UNSPEC.  A result is either a canonical value (compared exactly: structure, elements,
integer/real/character/string kind) or a Check object for the points where the manual is silent
and every reading is accepted.
"""
import math

UNSPEC = object()


class Check:
    """A permissive result: `ok(got)` decides; `text` says what is required.
    `free` marks a point the reference leaves wholly open (any value, or an error, is accepted)."""
    def __init__(self, ok, text, free=False):
        self.ok, self.text, self.free = ok, text, free


def I(n): return ["I", int(n)]
def R(x): return ["R", float(x)]
def S(t): return ["S", t]
def C(ch): return ["C", ch]
def L(xs): return ["L", list(xs)]


def is_num(c): return c[0] in ("I", "R")
def is_int(c): return c[0] == "I"
def is_list(c): return c[0] == "L"
def is_str(c): return c[0] == "S"
def is_seq(c): return c[0] in ("L", "S")
def is_atom(c): return not ((c[0] == "L" and c[1]) or (c[0] == "S" and c[1]))


def elems(c):
    return c[1] if c[0] == "L" else [C(ch) for ch in c[1]]


def mkseq(like, items):
    """A list or string of the same type as `like`."""
    if like[0] == "S":
        if all(x[0] == "C" for x in items):
            return S("".join(x[1] for x in items))
        return L(items)
    return L(items)


def num(x):
    if isinstance(x, int):
        return I(x)
    return R(x)


def lift1(f, ok):
    def g(a):
        if a[0] == "L":
            rs = [g(x) for x in a[1]]
            return UNSPEC if any(r is UNSPEC for r in rs) else L(rs)
        if not ok(a):
            return UNSPEC
        return f(a)
    return g


_PROBES = [["I", 1], ["R", 1.5], ["C", "a"], ["S", "a"], ["Y", "a"]]


def lift2(f, ok, str_atoms=False):
    """Atomic dyad: pair list with list element by element (equal lengths), extend an atom over a list.
    The result is a tree: ["L", [...]] whose leaves are canonical values or Check objects."""
    def g(a, b):
        la, lb = a[0] == "L", b[0] == "L"
        if la and lb:
            if len(a[1]) != len(b[1]):
                return UNSPEC
            rs = [g(x, y) for x, y in zip(a[1], b[1])]
        elif la:
            if not a[1] and not any(ok(p, b) for p in _PROBES):
                return UNSPEC           # [] against an atom the verb is not defined for
            rs = [g(x, b) for x in a[1]]
        elif lb:
            if not b[1] and not any(ok(a, p) for p in _PROBES):
                return UNSPEC
            rs = [g(a, y) for y in b[1]]
        else:
            if not ok(a, b):
                return UNSPEC
            return f(a, b)
        if any(r is UNSPEC for r in rs):
            return UNSPEC
        return L(rs)
    return g


def _eq(a, b):
    from vf.core.canon import same
    return same(a, b, "exact") is None


def equal_klong(a, b, tol=1e-9):
    """Klong match on canonical values."""
    if is_num(a) and is_num(b):
        x, y = a[1], b[1]
        return x == y or abs(x - y) <= tol * max(abs(x), abs(y))
    if a[0] != b[0]:
        return False
    if a[0] == "L":
        return len(a[1]) == len(b[1]) and all(equal_klong(x, y, tol) for x, y in zip(a[1], b[1]))
    return a[1:] == b[1:]


# ================================================================== monads

def m_atom(a):
    return I(0) if ((a[0] == "L" and a[1]) or (a[0] == "S" and a[1])) else I(1)


m_char = lift1(lambda a: C(chr(a[1])), lambda a: is_int(a) and 0 <= a[1] < 0x110000 and not (0xD800 <= a[1] < 0xE000))


CAP = 2000      # sizes beyond this are not explored (the result would not fit a test run)


def m_enumerate(a):
    if not is_int(a) or a[1] < 0 or a[1] > CAP:
        return UNSPEC
    return L([I(i) for i in range(a[1])])


def m_expand(a):
    if is_int(a):
        if a[1] < 0 or a[1] > CAP:
            return UNSPEC
        return L([I(0)] * a[1])
    if a[0] == "L" and all(is_int(x) and 0 <= x[1] <= CAP for x in a[1]):
        out = []
        for i, x in enumerate(a[1]):
            out += [I(i)] * x[1]
        return L(out)
    return UNSPEC


def m_first(a):
    if a[0] == "L":
        return a[1][0] if a[1] else a
    if a[0] == "S":
        return C(a[1][0]) if a[1] else a
    if a[0] in ("I", "R", "C", "Y"):
        return a
    return UNSPEC


def _floor(a):
    f = math.floor(a[1])
    if abs(a[1]) < 2 ** 53:
        return I(f)
    return Check(lambda got: is_num(got) and got[1] == f, "floor of a large magnitude: integer or floored real")


m_floor = lift1(_floor, lambda a: is_num(a) and math.isfinite(a[1]))


def _format(a):
    if a[0] == "I":
        return S(str(a[1]))
    if a[0] == "R":
        x = a[1]

        def ok(got):
            if got[0] != "S":
                return False
            try:
                return float(got[1]) == x
            except ValueError:
                return False
        return Check(ok, "a string that reads back to %r" % x)
    if a[0] == "Y":
        return S(":" + a[1])
    if a[0] == "S":
        return a
    if a[0] == "C":
        return S(a[1])
    return UNSPEC


m_format = lift1(_format, lambda a: a[0] in ("I", "R", "Y", "S", "C") and not (a[0] == "R" and not math.isfinite(a[1])))


def _sortkey(x):
    """Mutually comparable elements: numbers; characters; strings; equal-length number lists."""
    if is_num(x):
        return ("n", x[1])
    if x[0] == "C":
        return ("c", x[1])
    if x[0] == "S":
        return ("s", x[1])
    return None


def _grade(a, descending):
    if not is_seq(a) or not a[1]:
        return UNSPEC
    es = elems(a)
    keys = [_sortkey(x) for x in es]
    if any(k is None for k in keys) or len({k[0] for k in keys}) != 1:
        return UNSPEC
    n = len(es)

    def ok(got):
        if got[0] != "L" or len(got[1]) != n or any(not is_int(x) for x in got[1]):
            return False
        perm = [x[1] for x in got[1]]
        if sorted(perm) != list(range(n)):
            return False
        ks = [keys[i][1] for i in perm]
        return all((ks[i] >= ks[i + 1]) if descending else (ks[i] <= ks[i + 1]) for i in range(n - 1))
    return Check(ok, "a permutation of 0..%d that sorts the operand %s" % (n - 1, "descending" if descending else "ascending"))


def m_grade_up(a): return _grade(a, False)
def m_grade_down(a): return _grade(a, True)


def m_group(a):
    if not is_seq(a):
        return UNSPEC
    if not a[1]:
        return Check(lambda got: got == ["L", []], "[]")
    es = elems(a)
    if _int_meets_equal_real(es):
        return UNSPEC
    groups = []
    for i, x in enumerate(es):
        for g in groups:
            if equal_klong(es[g[0]], x):
                g.append(i)
                break
        else:
            groups.append([i])
    want = sorted(tuple(g) for g in groups)

    def ok(got):
        if got[0] != "L":
            return False
        try:
            gs = sorted(tuple(x[1] for x in g[1]) for g in got[1])
        except Exception:
            return False
        return gs == want and all(all(is_int(x) for x in g[1]) for g in got[1])
    return Check(ok, "the groups %s in any order" % (want,))


def m_list(a):
    if a[0] == "C":
        return S(a[1])
    return L([a])


m_negate = lift1(lambda a: num(-a[1]) if a[0] == "I" else R(-a[1]), is_num)


def m_not(a):
    if a[0] == "L" and a[1]:
        rs = [m_not(x) for x in a[1]]
        return UNSPEC if any(r is UNSPEC for r in rs) else L(rs)
    if a[0] == "L" or (a[0] == "S" and not a[1]):
        return I(1)
    if is_num(a):
        return I(1 if a[1] == 0 else 0)
    if a[0] in ("S", "C", "Y"):
        return I(0)
    return UNSPEC


def _int_meets_equal_real(es):
    """Two elements that are equal as numbers but differ in kind (1 and 1.0, also inside sub-lists): whether they match is not fixed."""
    for i, x in enumerate(es):
        for y in es[i + 1:]:
            if equal_klong(x, y) and _mixed_kinds(x, y):
                return True
    return False


def m_range(a):
    if not is_seq(a):
        return UNSPEC
    if _int_meets_equal_real(elems(a)):
        return UNSPEC
    out = []
    for x in elems(a):
        if not any(equal_klong(x, y) for y in out):
            out.append(x)
    return mkseq(a, out)


m_reciprocal = lift1(lambda a: R(1.0 / a[1]), lambda a: is_num(a) and a[1] != 0)


def m_reverse(a):
    if a[0] == "L":
        return L(list(reversed(a[1])))
    if a[0] == "S":
        return S(a[1][::-1])
    if a[0] in ("I", "R", "C", "Y"):
        return a
    return UNSPEC


def _shape(c):
    """Dimensions of a rectangular array (strings as the innermost dimension), or None."""
    if c[0] == "S":
        return [len(c[1])] if c[1] else None
    if c[0] != "L":
        return []
    if not c[1]:
        return None
    subs = [_shape(x) for x in c[1]]
    if any(s is None for s in subs) or any(s != subs[0] for s in subs):
        return None
    return [len(c[1])] + subs[0]


def _kshape(c):
    """Klong's shape: a level counts while all its elements have one common shape; strings are the innermost level."""
    if c[0] == "S":
        return [len(c[1])] if c[1] else []
    if c[0] != "L" or not c[1]:
        return []
    subs = [_kshape(x) for x in c[1]]
    if all(s == subs[0] for s in subs):
        return [len(c[1])] + subs[0]
    return [len(c[1])]


def m_shape(a):
    if is_atom(a):
        return I(0)
    return L([I(d) for d in _kshape(a)])


def m_size(a):
    if is_seq(a):
        return I(len(a[1]))
    if a[0] == "I":
        return I(abs(a[1]))
    if a[0] == "R":
        return R(abs(a[1]))
    if a[0] == "C":
        return I(ord(a[1]))
    return UNSPEC


def m_transpose(a):
    if a == ["L", []]:
        return a
    sh = _shape(a)
    if a[0] != "L" or sh is None or len(sh) != 2 or any(x[0] != "L" for x in a[1]):
        return UNSPEC
    rows = [r[1] for r in a[1]]
    return L([L([rows[i][j] for i in range(sh[0])]) for j in range(sh[1])])


MONADS = {"@": m_atom, ":#": m_char, "!": m_enumerate, "&": m_expand, "*": m_first, "_": m_floor, "$": m_format, "<": m_grade_up, ">": m_grade_down, "=": m_group,
          ",": m_list, "-": m_negate, "~": m_not, "?": m_range, "%": m_reciprocal, "|": m_reverse, "^": m_shape, "#": m_size, "+": m_transpose}


# ================================================================== dyads

def _arith(op):
    def f(a, b):
        x, y = a[1], b[1]
        r = x + y if op == "+" else x - y if op == "-" else x * y
        if a[0] == "I" and b[0] == "I":
            if abs(r) >= 2 ** 63:
                return Check(lambda got: True, "integer overflow is not specified", free=True)
            return I(r)
        return R(r)
    return lift2(f, lambda a, b: is_num(a) and is_num(b) and math.isfinite(a[1]) and math.isfinite(b[1]))


d_plus, d_minus, d_times = _arith("+"), _arith("-"), _arith("*")


def _divide(a, b):
    if b[1] == 0:
        return Check(lambda got: True, "division by zero inside a list is not specified", free=True)
    return R(a[1] / b[1])


_d_divide = lift2(_divide, lambda a, b: is_num(a) and is_num(b))


def d_divide(a, b):
    if is_num(a) and is_num(b) and b[1] == 0:
        return ["U"]
    return _d_divide(a, b)


def _power(a, b):
    x, y = a[1], b[1]
    if x == 0 and y < 0:
        return UNSPEC
    if x < 0 and float(y) != int(y):
        return UNSPEC
    if abs(y) > 1024 and abs(x) > 1:
        return UNSPEC               # astronomically large or small: not explored
    try:
        r = float(x) ** float(y) if not (a[0] == "I" and b[0] == "I" and y >= 0) else x ** y
    except OverflowError:
        return UNSPEC
    if isinstance(r, complex) or (isinstance(r, float) and not math.isfinite(r)) or abs(r) >= 2 ** 62:
        return UNSPEC
    if a[0] == "I" and b[0] == "I" and y >= 0:
        return I(r)
    rr = float(r)

    def ok(got):
        return is_num(got) and (got[1] == rr or abs(got[1] - rr) <= 1e-12 * abs(rr))
    return Check(ok, "%r (integer or real kind for a whole value is not fixed)" % rr)


d_power = lift2(_power, lambda a, b: is_num(a) and is_num(b))


def _trunc_div(x, y):
    q = abs(x) // abs(y)
    return q if (x >= 0) == (y >= 0) else -q


d_remainder = lift2(lambda a, b: I(a[1] - b[1] * _trunc_div(a[1], b[1])), lambda a, b: is_int(a) and is_int(b) and b[1] != 0)
d_intdiv = lift2(lambda a, b: I(_trunc_div(a[1], b[1])), lambda a, b: is_int(a) and is_int(b) and b[1] != 0)


def _minmax(pick):
    def f(a, b):
        x, y = a[1], b[1]
        r = pick(x, y)
        if a[0] == b[0]:
            return [a[0], r]
        return Check(lambda got: is_num(got) and got[1] == r, "%r (kind when an integer meets a real is not fixed)" % r)
    return lift2(f, lambda a, b: is_num(a) and is_num(b))


d_min, d_max = _minmax(min), _minmax(max)


def _cmp(op):
    def ok(a, b):
        if is_num(a) and is_num(b):
            return True
        return a[0] == b[0] and a[0] in ("C", "S", "Y")

    def f(a, b):
        x, y = a[1], b[1]
        if op == "=" and is_num(a) and is_num(b) and a[0] != b[0]:
            return Check(lambda got: got in (["I", 0], ["I", 1]), "integer against real under = is not fixed")
        if a[0] == "Y" and op != "=":
            return UNSPEC
        r = (x < y) if op == "<" else (x > y) if op == ">" else (x == y)
        return I(1 if r else 0)
    return lift2(f, ok)


d_less, d_more, d_equal = _cmp("<"), _cmp(">"), _cmp("=")


def d_match(a, b):
    if a[0] in ("D", "F", "U", "X") or b[0] in ("D", "F", "U", "X"):
        return UNSPEC
    strict = equal_klong(a, b, 1e-12)
    loose = equal_klong(a, b, 1e-6)
    mixed = _mixed_kinds(a, b)
    if strict and not mixed:
        return I(1)
    if not loose:
        return I(0)
    return Check(lambda got: got in (["I", 0], ["I", 1]), "borderline real difference / integer against equal real")


def _mixed_kinds(a, b):
    if is_num(a) and is_num(b):
        return a[0] != b[0]
    if a[0] == "L" and b[0] == "L" and len(a[1]) == len(b[1]):
        return any(_mixed_kinds(x, y) for x, y in zip(a[1], b[1]))
    return False


def d_join(a, b):
    if a[0] == "D" or b[0] == "D":
        return UNSPEC
    if a[0] == "S" and b[0] == "S":
        return S(a[1] + b[1])
    if a[0] == "S" and b[0] == "C":
        return S(a[1] + b[1])
    if a[0] == "C" and b[0] == "S":
        return S(a[1] + b[1])
    if a[0] == "C" and b[0] == "C":
        return Check(lambda got: got in (["S", a[1] + b[1]], ["L", [a, b]]), "two characters: a string or a list of two characters")
    if a[0] == "L" and b[0] == "L":
        return L(a[1] + b[1])
    if a[0] == "L":
        return L(a[1] + [b])
    if b[0] == "L":
        return L([a] + b[1])
    if a[0] in ("I", "R", "C", "S", "Y") and b[0] in ("I", "R", "C", "S", "Y"):
        return L([a, b])
    return UNSPEC


def d_take(a, b):
    if not is_int(a) or not is_seq(b) or abs(a[1]) > CAP:
        return UNSPEC
    es, n = elems(b), a[1]
    if n == 0:
        return mkseq(b, [])
    if not es:
        return UNSPEC
    if n > 0:
        out = [es[i % len(es)] for i in range(n)]
    else:
        m = -n
        out = [es[(len(es) - m + i) % len(es)] for i in range(m)]
    return mkseq(b, out)


def d_drop(a, b):
    if not is_int(a) or not is_seq(b):
        return UNSPEC
    es, n = elems(b), a[1]
    out = es[n:] if n >= 0 else es[:n] if -n < len(es) else []
    if n >= len(es):
        out = []
    return mkseq(b, out)


def d_index(a, b):
    if not is_seq(a):
        return UNSPEC
    es = elems(a)

    def one(i):
        return is_int(i) and 0 <= i[1] < len(es)
    if is_int(b):
        return es[b[1]] if one(b) else UNSPEC
    if b[0] == "L" and all(one(i) for i in b[1]):
        if not b[1]:
            return Check(lambda got: got in (["L", []], ["S", ""]), "no indices: an empty list or string")
        return mkseq(a, [es[i[1]] for i in b[1]])
    return UNSPEC


def d_index_in_depth(a, b):
    sh = _shape(a)
    if a[0] != "L" or sh is None or b[0] != "L" or len(b[1]) != len(sh) or not all(is_int(i) for i in b[1]):
        return UNSPEC
    if any(x[0] == "S" for x in _leaves(a)):
        return UNSPEC               # "extracts a single element from a multi-dimensional array": indexing into a string element is not spelled out
    cur = a
    for i, d in zip(b[1], sh):
        if not (0 <= i[1] < d):
            return UNSPEC
        cur = elems(cur)[i[1]]
    return cur


def d_amend(a, b):
    if not is_seq(a) or b[0] != "L" or len(b[1]) < 2:
        return UNSPEC
    v, idx = b[1][0], b[1][1:]
    if not all(is_int(i) for i in idx):
        return UNSPEC
    if a[0] == "L":
        if not all(0 <= i[1] < len(a[1]) for i in idx):
            return UNSPEC
        out = list(a[1])
        for i in idx:
            out[i[1]] = v
        return L(out)
    s = a[1]
    if v[0] == "C":
        if not all(0 <= i[1] < len(s) for i in idx):
            return UNSPEC
        out = list(s)
        for i in idx:
            out[i[1]] = v[1]
        return S("".join(out))
    if v[0] == "S" and v[1]:
        out = list(s)
        for n, i in enumerate(idx):
            if not (0 <= i[1] <= len(out)):
                return UNSPEC
            seg = list(v[1])
            if i[1] + len(seg) > len(out) and n < len(idx) - 1:
                return UNSPEC       # the string grows before the last replacement: the order of replacements is not fixed by the manual
            out[i[1]:i[1] + len(seg)] = seg
        return S("".join(out))
    return UNSPEC


def d_amend_in_depth(a, b):
    sh = _shape(a)
    if a[0] != "L" or sh is None or b[0] != "L" or len(b[1]) != len(sh) + 1:
        return UNSPEC
    v, idx = b[1][0], b[1][1:]
    if not all(is_int(i) and 0 <= i[1] < d for i, d in zip(idx, sh)):
        return UNSPEC
    if any(x[0] == "S" for x in _leaves(a)) or v[0] == "L":
        return UNSPEC

    def rec(c, path):
        if not path:
            return v
        out = list(c[1])
        out[path[0][1]] = rec(c[1][path[0][1]], path[1:])
        return L(out)
    return rec(a, idx)


def _leaves(c):
    if c[0] == "L":
        out = []
        for x in c[1]:
            out += _leaves(x)
        return out
    return [c]


def d_cut(a, b):
    if not is_seq(b):
        return UNSPEC
    es = elems(b)
    if is_int(a):
        pos = [a[1]]
    elif a[0] == "L" and all(is_int(i) for i in a[1]) and a[1]:
        pos = [i[1] for i in a[1]]
    else:
        return UNSPEC
    if any(p < 0 or p > len(es) for p in pos) or any(pos[i] > pos[i + 1] for i in range(len(pos) - 1)):
        return UNSPEC
    if not es:
        # cutting an empty list: one empty segment per position (0:_[] --> [[]], [0 0]:_[] --> [[] []])
        return L([mkseq(b, []) for _ in pos])
    segs, prev = [], 0
    for p in pos:
        segs.append(es[prev:p])
        prev = p
    segs.append(es[prev:])
    return L([mkseq(b, s) for s in segs])


def d_split(a, b):
    if not is_seq(b) or not b[1]:
        return UNSPEC
    es = elems(b)
    if is_int(a):
        sizes = [a[1]]
    elif a[0] == "L" and a[1] and all(is_int(i) for i in a[1]):
        sizes = [i[1] for i in a[1]]
    else:
        return UNSPEC
    if any(s <= 0 or s > 10 ** 9 for s in sizes):
        return UNSPEC
    segs, i, k = [], 0, 0
    while i < len(es):
        s = sizes[k % len(sizes)]
        segs.append(es[i:i + s])
        i += s
        k += 1
    return L([mkseq(b, s) for s in segs])


def d_rotate(a, b):
    if not is_int(a) or not is_seq(b):
        return UNSPEC
    es = elems(b)
    if not es:
        return b
    n = a[1]
    k = (abs(n) % len(es)) * (1 if n >= 0 else -1)
    if k == 0:
        out = list(es)
    elif k > 0:
        out = es[-k:] + es[:-k]
    else:
        out = es[-k:] + es[:-k]
    return mkseq(b, out)


def d_reshape(a, b):
    if is_int(a):
        shape = [a[1]]
        if a[1] == 0:
            return b
    elif a[0] == "L" and a[1] and all(is_int(i) for i in a[1]):
        shape = [i[1] for i in a[1]]
    else:
        return UNSPEC
    if b[0] in ("D", "F", "U"):
        return UNSPEC
    if b[0] == "S":
        src = [C(ch) for ch in b[1]]
        strsrc = True
    else:
        # the elements are taken from the top level of b (5:^[[1 2] [3 4]] repeats the rows); filling a
        # multi-dimensional shape from a nested source is not spelled out
        src = list(b[1]) if b[0] == "L" else [b]
        if len(shape) > 1 and any(x[0] == "L" for x in src):
            return UNSPEC
        strsrc = False
    if not src:
        return UNSPEC
    minus = [i for i, d in enumerate(shape) if d == -1]
    if minus:
        if len(minus) > 1 or len(src) < 2 or len(src) % 2 or any(x[0] == "L" for x in src):
            return UNSPEC           # "-1 denotes half the size of the source vector": only a flat source is covered
        shape = [len(src) // 2 if d == -1 else d for d in shape]
    if any(d <= 0 for d in shape):
        return UNSPEC
    total = 1
    for d in shape:
        total *= d
    if total > 4096:
        return UNSPEC
    flat = [src[i % len(src)] for i in range(total)]

    def build(dims, off):
        if len(dims) == 1:
            seg = flat[off:off + dims[0]]
            return mkseq(S("") if strsrc else L([]), seg)
        step = 1
        for d in dims[1:]:
            step *= d
        return L([build(dims[1:], off + i * step) for i in range(dims[0])])
    return build(shape, 0)


def _leaves_keep_strings(c):
    """Row-major elements of a (possibly nested) list; a ragged list contributes its top-level elements."""
    sh = _shape(c)
    if c[0] != "L":
        return [c]
    if sh is None or any(x[0] == "S" for x in c[1]):
        return list(c[1])
    out = []
    for x in c[1]:
        out += _leaves_keep_strings(x) if x[0] == "L" else [x]
    return out


def d_find(a, b):
    if a[0] == "L":
        return L([I(i) for i, x in enumerate(a[1]) if equal_klong(x, b)])
    if a[0] == "S":
        if b[0] == "C":
            return L([I(i) for i, ch in enumerate(a[1]) if ch == b[1]])
        if b[0] == "S":
            if b[1] == "":
                return L([I(i) for i in range(len(a[1]) + 1)])
            return L([I(i) for i in range(len(a[1]) - len(b[1]) + 1) if a[1][i:i + len(b[1])] == b[1]])
    return UNSPEC


def _format2(a, b):
    if a[0] == "I" and abs(a[1]) > CAP:
        return UNSPEC
    if a[0] == "I":
        t = _format(b)
        if t is UNSPEC or isinstance(t, Check):
            if b[0] != "R":
                return UNSPEC
            x, w = b[1], a[1]

            def ok(got):
                if got[0] != "S" or len(got[1]) < abs(w):
                    return False
                core = got[1].strip(" ")
                try:
                    if float(core) != x:
                        return False
                except ValueError:
                    return False
                return got[1] == (core.ljust(w) if w >= 0 else core.rjust(-w))
            return Check(ok, "the text of %r padded to %d" % (x, w))
        s, w = t[1], a[1]
        return S(s.ljust(w) if w >= 0 else s.rjust(-w))
    return UNSPEC


d_format2 = lift2(_format2, lambda a, b: is_int(a) and b[0] in ("I", "R", "S", "C", "Y"))


_INT_TEXT = __import__("re").compile(r"-?[0-9]+\Z")
_REAL_TEXT = __import__("re").compile(r"-?[0-9]+(\.[0-9]+)?(e[+-]?[0-9]+)?\Z")


def _form(a, b):
    s = b[1]
    if a[0] == "I":
        if _INT_TEXT.match(s):
            return I(int(s))
        try:
            int(s)
        except ValueError:
            return ["U"]            # "When such a conversion is not possible, :$ will return :undefined"
        return Check(lambda got: True, "an integer text only in the host's reading (blanks, underscores, sign): not judged")
    if a[0] == "R":
        if _REAL_TEXT.match(s):
            return R(float(s))
        try:
            float(s)
        except ValueError:
            return ["U"]
        return Check(lambda got: True, "a number text only in the host's reading (inf, nan, blanks, bare point): not judged")
    if a[0] == "C":
        return C(s) if len(s) == 1 else ["U"]
    if a[0] == "S":
        return S(s)
    if a[0] == "Y":
        name = s[1:] if s.startswith(":") else s
        if name and name[0].isalpha() and all(ch.isalnum() or ch == "." for ch in name):
            return ["Y", name]
        return Check(lambda got: True, "not a symbol name")
    return UNSPEC


d_form = lift2(_form, lambda a, b: b[0] == "S" and a[0] in ("I", "R", "C", "S", "Y"))


DYADS = {"+": d_plus, "-": d_minus, "*": d_times, "%": d_divide, "^": d_power, "!": d_remainder, ":%": d_intdiv, "&": d_min, "|": d_max, "<": d_less, ">": d_more, "=": d_equal,
         "~": d_match, ",": d_join, "#": d_take, "_": d_drop, "@": d_index, ":@": d_index_in_depth, ":=": d_amend, ":-": d_amend_in_depth, ":_": d_cut, ":#": d_split,
         ":+": d_rotate, ":^": d_reshape, "?": d_find, "$": d_format2, ":$": d_form}
