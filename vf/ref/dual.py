"""Forward-mode (dual number) evaluation of small differentiable expression trees, independent of
klongpy.  A tree is rendered to Klong source on one side and evaluated here on the other.

scalar expression S (over inputs named by (var, index) pairs):
  ["in", var, i|None]  ["c", number]  ["+",S,S] ["-",S,S] ["*",S,S] ["%",S,S] ["pow",S,k] ["neg",S]
  ["fn", name, S]      ["sum", V]  ["prod", V]
vector expression V:
  ["vec", var]  ["vmap", S-with-hole]   (each: {S[x]}'var)   ["v*", V, V] ["v+", V, V] ["vpow", V, k] ["vfn", name, V] ["vs*", S, V]
"""
import math


class D:
    __slots__ = ("v", "g")

    def __init__(self, v, g):
        self.v, self.g = float(v), g

    @staticmethod
    def const(c, n):
        return D(c, [0.0] * n)

    def __add__(a, b):
        return D(a.v + b.v, [x + y for x, y in zip(a.g, b.g)])

    def __sub__(a, b):
        return D(a.v - b.v, [x - y for x, y in zip(a.g, b.g)])

    def __mul__(a, b):
        return D(a.v * b.v, [a.v * y + b.v * x for x, y in zip(a.g, b.g)])

    def __truediv__(a, b):
        return D(a.v / b.v, [(x * b.v - a.v * y) / (b.v * b.v) for x, y in zip(a.g, b.g)])

    def __neg__(a):
        return D(-a.v, [-x for x in a.g])

    def pow(a, k):
        return D(a.v ** k, [k * (a.v ** (k - 1)) * x for x in a.g])

    def fn(a, name):
        v = a.v
        if name == "exp":
            f, d = math.exp(v), math.exp(v)
        elif name == "sin":
            f, d = math.sin(v), math.cos(v)
        elif name == "cos":
            f, d = math.cos(v), -math.sin(v)
        elif name == "tanh":
            f, d = math.tanh(v), 1 - math.tanh(v) ** 2
        elif name == "sqrt":
            f, d = math.sqrt(v), 0.5 / math.sqrt(v)
        elif name == "log":
            f, d = math.log(v), 1.0 / v
        else:
            raise ValueError(name)
        return D(f, [d * x for x in a.g])


def layout(point):
    """point: {var: float | [floats]} -> index of every scalar input, total count."""
    idx, n = {}, 0
    for var in sorted(point):
        val = point[var]
        if isinstance(val, list):
            for i in range(len(val)):
                idx[(var, i)] = n
                n += 1
        else:
            idx[(var, None)] = n
            n += 1
    return idx, n


def ev(t, point, idx, n, hole=None):
    k = t[0]
    if k == "in":
        if t[1] == "_":
            return hole
        val = point[t[1]]
        v = val[t[2]] if t[2] is not None else val
        g = [0.0] * n
        g[idx[(t[1], t[2])]] = 1.0
        return D(v, g)
    if k == "c":
        return D.const(t[1], n)
    if k in "+-*%" and len(k) == 1:
        a, b = ev(t[1], point, idx, n, hole), ev(t[2], point, idx, n, hole)
        return a + b if k == "+" else a - b if k == "-" else a * b if k == "*" else a / b
    if k == "pow":
        return ev(t[1], point, idx, n, hole).pow(t[2])
    if k == "neg":
        return -ev(t[1], point, idx, n, hole)
    if k == "fn":
        return ev(t[2], point, idx, n, hole).fn(t[1])
    if k == "sum":
        xs = evv(t[1], point, idx, n)
        r = D.const(0.0, n)
        for x in xs:
            r = r + x
        return r
    if k == "prod":
        xs = evv(t[1], point, idx, n)
        r = D.const(1.0, n)
        for x in xs:
            r = r * x
        return r
    raise ValueError(k)


def evv(t, point, idx, n):
    k = t[0]
    if k == "vec":
        return [ev(["in", t[1], i], point, idx, n) for i in range(len(point[t[1]]))]
    if k == "vmap":
        return [ev(t[1], point, idx, n, hole=x) for x in evv(["vec", t[2]], point, idx, n)]
    if k == "v*":
        return [a * b for a, b in zip(evv(t[1], point, idx, n), evv(t[2], point, idx, n))]
    if k == "v+":
        return [a + b for a, b in zip(evv(t[1], point, idx, n), evv(t[2], point, idx, n))]
    if k == "vpow":
        return [a.pow(t[2]) for a in evv(t[1], point, idx, n)]
    if k == "vfn":
        return [a.fn(t[1]) for a in evv(t[2], point, idx, n)]
    if k == "vs*":
        s = ev(t[1], point, idx, n)
        return [s * a for a in evv(t[2], point, idx, n)]
    raise ValueError(k)


def num(x):
    s = repr(float(x))
    return "(%s)" % s if s.startswith("-") else s


def render(t, names=None):
    """Klong source of a scalar expression; names maps var -> Klong name (x for the function parameter)."""
    names = names or {}
    k = t[0]
    if k == "in":
        if t[1] == "_":
            return "x"
        nm = names.get(t[1], t[1])
        return nm if t[2] is None else "(%s@%d)" % (nm, t[2])
    if k == "c":
        return num(t[1])
    if k in "+-*%" and len(k) == 1:
        return "((%s)%s(%s))" % (render(t[1], names), k, render(t[2], names))
    if k == "pow":
        return "((%s)^%s)" % (render(t[1], names), (str(t[2]) if isinstance(t[2], int) else num(t[2])))
    if k == "neg":
        return "(-(%s))" % render(t[1], names)
    if k == "fn":
        return "%s(%s)" % (t[1], render(t[2], names))
    if k == "sum":
        return "(+/%s)" % renderv(t[1], names)
    if k == "prod":
        return "(*/%s)" % renderv(t[1], names)
    raise ValueError(k)


def renderv(t, names=None):
    names = names or {}
    k = t[0]
    if k == "vec":
        return names.get(t[1], t[1])
    if k == "vmap":
        return "({%s}'%s)" % (render(t[1], names), names.get(t[2], t[2]))
    if k == "v*":
        return "(%s*%s)" % (renderv(t[1], names), renderv(t[2], names))
    if k == "v+":
        return "(%s+%s)" % (renderv(t[1], names), renderv(t[2], names))
    if k == "vpow":
        return "(%s^%s)" % (renderv(t[1], names), (str(t[2]) if isinstance(t[2], int) else num(t[2])))
    if k == "vfn":
        return "%s(%s)" % (t[1], renderv(t[2], names))
    if k == "vs*":
        return "(%s*%s)" % (render(t[1], names), renderv(t[2], names))
    raise ValueError(k)


def ops_of(t, acc=None):
    acc = acc if acc is not None else set()
    k = t[0]
    if k in ("in", "c", "vec"):
        return acc
    if k in ("fn", "vfn"):
        acc.add(t[1])
    elif k in ("pow", "vpow"):
        acc.add("^int" if isinstance(t[2], int) else "^real")
    elif k == "vmap":
        acc.add("each")
    elif k == "in" and t[2] is not None:
        acc.add("index")
    else:
        acc.add({"v*": "*", "v+": "+", "vs*": "*", "neg": "negate", "sum": "+/", "prod": "*/"}.get(k, k))
    for x in t[1:]:
        if isinstance(x, list):
            ops_of(x, acc)
    return acc
