#!/bin/bash
# MANIFEST.setup_cmd: offline install of icontract/deal beside the repository's interpreter.
cd "$(dirname "$(readlink -f "$0")")" || exit 1
export PYTHONPATH="$PWD"
exec /venv/bin/python -c "from vf.core import env; import sys; sys.exit(0 if env.ensure_deps() else 1)"
