#!/usr/bin/env python3
"""Prints the prompt for a mutation sub-agent: only the property text + worktree path."""
import json, sys
pid, variant = sys.argv[1], (sys.argv[2] if len(sys.argv) > 2 else "a")
p = [json.loads(l) for l in open('/verif/properties.jsonl') if json.loads(l)['id'] == pid][0]
wt = "/tmp/wt-%s%s" % (pid, variant)
out = "/tmp/mut-%s%s" % (pid, variant)
print(f"""You are helping to evaluate a test-adequacy study of the open-source project briangu/klongpy (a Python interpreter for the Klong array language). Your job is to produce ONE realistic, subtle regression ("seeded change") to the project that breaks a stated semantic property while the project still imports and its whole existing test suite still passes.

Your private scratch git worktree of the project is at: {wt}   (work ONLY there; never touch /repo or /verif, and do not read anything under /verif)
Python to use: /venv/bin/python.  IMPORTANT: the interpreter has the project installed in editable mode pointing elsewhere, so always run with PYTHONPATH={wt} so that your worktree's klongpy package is the one imported (check with: PYTHONPATH={wt} /venv/bin/python -c "import klongpy; print(klongpy.__file__)").
Run the existing test suite with: cd {wt} && PYTHONPATH={wt} /venv/bin/python -m pytest -q -p no:cacheprovider --timeout=900 -n 8 -W ignore     (about 25 s; 711 pass / 49 skipped on the unchanged tree)
There is no network.

THE PROPERTY (id {pid}): {p['title']}
Statement: {p['statement']}
Scope of the quantifier: {p['quantifier']['text']}
Code it is anchored in: {', '.join(p['anchors']['files'])}

WHAT TO PRODUCE
1. A small source change inside {wt}/klongpy (a few lines, the kind of thing a plausible refactoring, optimisation or "cleanup" commit could introduce) such that:
   - the package still imports and the ENTIRE existing test suite still passes (same pass count as before your change - run it and confirm);
   - the property above is now violated for SOME inputs / histories / schedules / fault points;
   - the violation needs something specific to manifest: a particular interleaving, a crash or fault at a particular point, a multi-step sequence of operations, an unusual operand (shape / kind / size / edge value), or two cooperating sites that each look fine alone. Do NOT make a change that ordinary everyday use (e.g. `1+2`, a basic happy-path call) would expose at once. Prefer a change in a different place / of a different nature than the obvious first idea.{' Choose a mechanism DIFFERENT from the most obvious one (another file or another code path of the anchored code).' if variant != 'a' else ''}
2. A demonstration program {out}/demo.py (standalone, run as: PYTHONPATH=<tree> /venv/bin/python {out}/demo.py) that exits 0 on the unchanged tree and exits non-zero (with a short message saying what was observed vs expected) on the changed tree. It must be deterministic (or loop enough to be reliable within ~60 s).
3. Save the change as {out}/patch.diff (cd {wt} && git diff > {out}/patch.diff) and write {out}/meta.json with keys: property, summary (what was changed), needs (what specific condition is needed for the violation to manifest), files_changed, tests_result (the pytest summary line you observed with the change applied), demo_unchanged_exit, demo_changed_exit.
4. Verify yourself: (a) with the patch applied, test suite passes and demo exits non-zero; (b) reverse the patch with `git apply -R` (NEVER use `git stash`: the stash is shared between all worktrees of this repository and other people are working in sibling worktrees): demo exits 0, then re-apply it with `git apply`. Leave the worktree with the patch APPLIED when you finish.

Create {out} with mkdir -p. Keep the change minimal and realistic; do not add new test files to the project; do not modify tests. Finish by replying with a 5-line summary (what changed, what it needs to manifest, test result, demo results).""")
