#!/bin/bash
# tools/keepmut.sh <name> <property> "<checks that caught it / result>" : store a confirmed seeded change under /verif/seeded/<name>
set -u
name=$1; prop=$2; result=$3; src=/tmp/mut-$name; dst=/verif/seeded/$name
mkdir -p $dst
cp $src/patch.diff $dst/patch.diff; cp $src/demo.py $dst/demo.py
python3 - "$src/meta.json" "$dst/meta.json" "$prop" "$result" <<'PY'
import json,sys
try: m=json.load(open(sys.argv[1]))
except Exception: m={}
out={"property":sys.argv[3],"summary":m.get("summary"),"needs":m.get("needs"),"files_changed":m.get("files_changed"),
 "what_i_ran":["tools/confirm_mut.sh (scratch copy of /repo: demo exits 0 unchanged; patch applied: full existing suite passes; demo exits non-zero)",
               "tools/trymut.sh seeded/<name>/patch.diff <ID> (check run with VERIF_REPO pointing at a patched scratch copy)"],
 "check_result":sys.argv[4],"agent_reported_tests":m.get("tests_result")}
json.dump(out,open(sys.argv[2],"w"),indent=1)
PY
git -C /repo worktree remove --force /tmp/wt-$name 2>/dev/null
rm -rf $src /tmp/confirm-$name-*.log /tmp/prompt-${name%?}.txt
echo kept $dst
