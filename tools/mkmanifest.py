#!/usr/bin/env python3
"""Regenerates /verif/MANIFEST.json from the table below (keeps it schema-valid at all times)."""
import json, os
HERE = os.path.dirname(os.path.dirname(os.path.abspath(__file__)))
ALL = ["C%02d" % i for i in range(1, 21)]

CHECKS = {
 "C07": dict(cat="fault_enumeration", tech="snapshot monitor (bit-exact values, Python kind, dtype, requires_grad of every variable; f() before/after) with failure injection by a counting/raising harness callable inside the loss at every evaluation index of the clean run",
   text="Every gradient form (f:>literal, f:>symbol, symbol∇f, literal∇f, p∂g, loss:>[w b c], [w b]∂g) x parameter kinds (float / integer vectors, scalars, matrix) x three loss bodies x both backends is run clean and then with the loss failing at its k-th evaluation for every k of the clean run (capped at 12, then first/middle/last), with a non-scalar loss and with an unknown name; after each run the complete variable snapshot and the function's value must be identical to before. Fault positions are enumerated exhaustively per case up to the cap.",
   note="the injected callable is the identity (keeps torch gradient tracking); bit-exact comparison of array contents.", ref="DESIGN.md §4 C07"),
 "C06": dict(cat="exploration", tech="reference-model monitor: independent forward-mode (dual number) evaluation of generated expression trees vs the real :> / ∇ / ∂ operators on both backends, plus cross-backend comparison and closed-form gradients at matrix points",
   text="Generated trees (size<=7) over arithmetic, integer and real powers, negation, +/ */, indexing, each and backend math functions are rendered to Klong functions and differentiated by f:>p, p∇f, p∂g and loss:>[w b] at grid points inside the smooth domain, for scalar, vector and multi-parameter forms, on numpy (numeric) and torch (autograd); results are compared with exact dual-number partials and across backends. Matrix-valued points, also produced by transposition / reversal / re-indexing, are checked against closed-form gradients. Held on the trees observed; thresholds leave a near-tolerance band so conditioning cannot alarm.",
   note="violation thresholds 1e-4 (numeric) / 1e-3 (autograd, cross-backend) relative; smooth-domain points only; the float32 numeric path on torch is a listed finding.", ref="DESIGN.md §4 C06"),
 "C20": dict(cat="exploration", tech="exactly-once / ordering history monitor: token-carrying HTTP requests against the real .web server and token-free JSON message sequences against the real .ws client, with a Klong-side call log written by harness callables",
   text="Per case a real .web server is started on an ephemeral loopback port with a generated route table (<=3 GET, <=3 POST, named handlers) and driven one request at a time with good requests (parameter dictionaries: empty, several keys, URL-encoding-sensitive, non-ASCII, quotes/newlines), unknown paths, wrong methods, a failing handler and handler redefinitions; per request the handler-invocation count, the logged parameter dictionary, status and body are judged, then .webc and a probe of the port. Per websocket case the harness-owned server pushes a sequence over all JSON kinds and the client sends values: delivery exactly once, in order, decoded, and the JSON text of sent values are judged. Held on the sequences observed.",
   note="one request at a time; handlers mention all parameters they receive; body text = Python str() of the handler result.", ref="DESIGN.md §4 C20"),
 "C14": dict(cat="exploration", tech="history monitor at the client boundary (call/return per caller thread, token-carrying fabricated responses) over the real NetworkClient on harness-owned in-memory streams; logical hang criterion (no live listener task); real-TCP race scenarios under sys.monitoring yield injection",
   text="The real NetworkClient is driven over in-memory streams on which the harness plays the server: all arrival orders of up to three concurrent calls x fragmentation patterns x cut classes (inside id / length / body, between frames, none) x number of responses delivered before the loss x loss before send x a locally initiated close acknowledged while calls are unanswered x a late call after the loss. Every caller must return exactly its own response or raise; a caller still blocked when no listener task exists is a hang. Real loopback pairs (server evaluation fails, .clic and .srv(0) racing with pending calls, call after close) run under seeded yield injection on the multi-threaded lines. Held on the scenarios observed; 'never hangs' is decided as logical quiescence, not by a proof.",
   note="the exception type of a failed call is not prescribed; real-TCP scenarios each run in their own process (module-level server singleton).", ref="DESIGN.md §4 C14"),
 "C13": dict(cat="exploration", tech="twin differential monitor (live server over real loopback TCP + client in one process vs a local twin of the server) and an exhaustive stream-fragmentation monitor on the real stream_recv_msg fed through a real asyncio.StreamReader",
   text="Generated sequences of remote operations (f(\"expr\"), f(:name,args), proxy calls, remote dictionary set/get, symbol fetch, :_ of remote results) over the transportable universe run against a live server and are mirrored on a twin interpreter; client-side results must equal the twin's. Separately, for sets of one to three consecutive frames every cut of the byte stream into up to three reads (exhaustive below 120 bytes) is fed to the real reader: messages must come out intact, in order, and never before their last byte arrived. Held on what was observed.",
   note="one IPC server per process (module singleton); functions travel as proxies by design and are not compared; the harness reconnects after a server-side failure tore the connection down (C14's subject).", ref="DESIGN.md §4 C13"),
 "C19": dict(cat="exploration", tech="model-based history monitor: Klong-level results of .table/.insert/t?col/#t/.schema/.index/.rindex/add-column/db(sql) compared step by step with a list-of-rows model",
   text="Generated histories (create from columns, single and batch inserts, column reads, counts, index on one or two columns with unique keys, re-insert of existing keys, index drop, added column, select/count through .db, .schema) over integer, real and string columns run against the real Table/Database; each observation is compared with a model in which an unindexed table keeps insertion order and an indexed table keeps the last row per key ordered by key, with buffering invisible. Held on the histories observed.",
   note="index columns unique before indexing; values compared with Klong match; a one-row SQL result may be squeezed.", ref="DESIGN.md §4 C19"),
 "C18": dict(cat="exploration", tech="controlled-scheduler execution of the real FileCache (lock, executor, open/os replaced by scheduler-aware versions) + per-file Wing-Gong linearizability check against a sequential register + quiescent final-state/accounting check",
   text="Two client threads (thorough: up to three, two files, small limits) each performing one or two of get/update/unload run against the real FileCache under a scheduler that owns every lock acquisition, task submission/completion, future wait and file-system call; schedules are drawn uniformly, with few preemptions, and by depth-first enumeration with preemption bound 2 on the smallest mixes. Each complete history (unique written values) is searched exhaustively for a linearization; deadlock is decided logically; at quiescence disk, cache and accounting are compared. Held on the schedules observed; known load/write and unload races are listed as findings, so detection power on mixed get/update/unload cells is limited to other oracle kinds.",
   note="yield points are the only schedule-dependent places; interleavings inside CPython bytecode between them and beyond the preemption bound are not explored.", ref="DESIGN.md §4 C18"),
 "C17": dict(cat="fault_enumeration", tech="strace-recorded syscall trace of the real KeyValueStorage + crash-image enumeration under a POSIX-style persistence model (every trace prefix x loss choice x model), each image read by a fresh real store; plus real SIGKILL at every interposed file-operation boundary",
   text="For each script of sets the real store runs in a child under strace; every prefix of the recorded mkdir/openat/write/fsync/close trace is combined with every allowed loss of unsynced data (all lost, all kept, truncation only, 1-byte and half prefixes) under a weak (fsync commits earlier metadata) and a strict (new entries need a directory fsync) model; each image is materialised and read back by a fresh KeyValueStorage: acknowledged keys must read their value, other keys must be unaffected. The enumeration is exhaustive over the recorded trace for the stated loss choices; the child is additionally killed for real at each file-operation boundary.",
   note="trusted base: the persistence model in vf/ref/persist.py, strace's ordering of syscalls across threads, deterministic pickle output.", ref="DESIGN.md §4 C17"),
 "C16": dict(cat="exploration", tech="model-based history monitor at the store boundary (Klong d,k,v / d?k; TableStorage.set/get) + accounting/heap/disk invariant monitor evaluated under the cache's own lock after every operation",
   text="Generated histories (set, get, get of a never-set key, reopen on the same directory, unload, oversize value) over flat and nested keys, values of every picklable kind and three cache-limit classes drive the real key-value store through the Klong operators and the real table store through its API; every get is compared with a dict model (table store: documented merge, existing rows win) and after every operation the accounting invariants (usage == recorded claims == real size of held entries, 0 <= usage <= limit, heap names cached entries) and the on-disk contents are checked. Held on the histories observed.",
   note="single client thread (C18 covers concurrency); keys never prefix one another; limits chosen so that one / two / all entries fit.", ref="DESIGN.md §4 C16"),
 "C15": dict(cat="exploration", tech="trace-specification checker (rules R1-R7) over (virtual time, tick, .timerc) events of the real .timer/.timerc running on a real asyncio loop with a scripted virtual clock and dispatch latencies",
   text="Generated callback scripts (duration relative to the interval, return value, actions cancel-self / cancel-other / redefine / raise) x intervals {0,1,2,5} x dyadic and non-dyadic start times x scripted dispatch latencies (on the deadline, inside the clock resolution before it, later by less/more than an interval) x external cancellations drive the real timer code; the recorded trace is checked for early ticks, double ticks per boundary, overlap, ticks after stop, .timerc return values, stale callback definitions and bounded progress. Liveness is restated as bounded progress up to a virtual horizon.",
   note="asyncio SelectorEventLoop dispatch semantics; virtual clock resolution equals the monotonic clock's; behaviour after a raising callback is only checked for R1-R4.", ref="DESIGN.md §4 C15"),
 "C09": dict(cat="exploration", tech="call-log monitor on instrumented Python callables (exactly-once, positional arguments, result) + store/read-back oracle + wrapper-vs-Klong-text differential over redefinition/deletion histories",
   text="Values of the universe stored through klong[name]=v are read back through klong[name], the program and an assignment; instrumented Python callables of arity 0..3 (with/without klong) are applied in every call form (direct, via variable, @, each, each-2, over, each-pair, every projection pattern of arity 2 and 3, two-step fill) and their call log is compared with the expected call sequence; Klong functions of arity 0..3 are called through klong[name](*args) along generated wrap/redefine/delete/call histories (including wrong argument counts) and compared with the Klong call text. Held on the histories observed.",
   note="parameter names restricted to x,y,z prefix (+klong); a wrapper call while its name is deleted is executed but not judged.", ref="DESIGN.md §4 C09"),
 "C12": dict(cat="exploration", tech="sys.monitoring step-budget monitor (function entries + loop back-edges in parser.py/interpreter.py) on the real prog(), structural re-parse comparison, budgeted evaluation of re-parsed programs with a nondeterminism control",
   text="All strings of <=2 tokens (thorough: all 3-token strings) over a 60-token alphabet, token-level edits of the repository's .kg corpus lines and generated long / deeply nested / truncated strings are parsed under a deterministic work budget B(n)=100(n+4)^2; each is parsed twice and compared structurally, the variable snapshot is compared across the parse, and the re-parsed program's evaluation is compared with the first parse's. Bounded statement: no enumerated input exceeds the budget; true termination for all strings is not decided.",
   note="work = monitored events, not wall-clock; evaluation comparison skips I/O programs and programs whose own repeated evaluation is nondeterministic.", ref="DESIGN.md §4 C12"),
 "C10": dict(cat="exploration", tech="model-based history monitor: every dictionary operation's Klong-level result compared with a Python-dict model driven by the same sequence; alias visibility checked after each update",
   text="Generated operation sequences (literal, add/overwrite from both sides, find, remove, size, each, alias, literal re-evaluated inside a function) over keys of every hashable kind and values of every kind are executed by the real interpreter and compared step by step with a dictionary model; after every update all aliases are read back. Held on the sequences observed.",
   note="keys avoid Python-level collisions the reference is silent about (1 vs 1.0, 0cx vs \"x\"); d@k is observed but not judged.", ref="DESIGN.md §4 C10"),
 "C04": dict(cat="exploration", tech="per-statement snapshot oracle (only the assigned variable may change) plus twin re-execution in a fresh interpreter rebuilt from the canonical pre-state",
   text="Generated statement histories (assignments, derived sub-lists, amend / amend-in-depth on numeric, string, symbol and mixed nested lists, function definitions and calls, adverb expressions, repeated texts, module switch, dictionary literal in a function) run in a long-lived interpreter; after every statement the variable snapshot is compared with the pre-state and the statement is re-run in a fresh interpreter that shares no Python object with the first. Held on the histories observed.",
   note="the canonical snapshot plus the function definition texts is taken to be the whole state; dictionary aliasing is C10's subject.", ref="DESIGN.md §4 C04"),
 "C08": dict(cat="exploration", tech="twin-interpreter differential monitor numpy vs torch(cpu) over generated numeric-core programs, four-configuration (backend x compiler on/off) localisation of divergences",
   text="Generated programs of the numeric core (depth<=3: arithmetic, comparison, min/max, negate, floor, reverse, reductions, scans, each, index, take/drop, join) over scalar/vector/matrix bindings run under both backends in fresh interpreters; canonical value (shape, integer/real kind, float32 tolerance) and normalised writer text are compared whenever both return, and compiler-only programs must be accepted by both. Held on the programs observed.",
   note="torch cpu float32; operands kept small so integer results stay exact in float32; nested/ragged operands excluded (object arrays).", ref="DESIGN.md §4 C08"),
 "C05": dict(cat="exploration", tech="twin-interpreter differential monitor: real compiler (instrumented, invocations counted) vs compile_expr stubbed to None by attribute assignment",
   text="Generated expressions of the compilable grammar (depth<=3) in four evaluation positions, over bindings of every class and rebinding histories, on numpy and torch, are executed in a compiling interpreter and in a non-compiling twin and compared exactly; only cases where the compiled callable really ran count. Divergences are localised to one IR node by single-operator probes and matched against mechanism-keyed known findings.",
   note="compile_expr is looked up as a module global at call time (a run with no compiled invocation is inconclusive); nested lists are exercised on numpy only (object arrays under torch).", ref="DESIGN.md §4 C05"),
 "C11": dict(cat="exploration", tech="runtime round-trip monitor at the public boundary (.w -> .rs -> ~, x:$$x) over a generated value universe",
   text="Every value of the closed universe (all atom kinds, hostile strings, extreme reals, nestings to depth 3, dictionaries) is driven through the real .w/.rs and Format/Form and judged by a round-trip oracle; held on the values observed, not a proof over all values.",
   note="CPython float repr round-trips; values are built with the backend's kg_asarray as the reader builds them; inf/nan outside the domain.", ref="DESIGN.md §4 C11"),
}

def main():
    checks = []
    for pid in ALL:
        if pid not in CHECKS:
            continue
        c = CHECKS[pid]
        checks.append({
            "property_id": pid,
            "quick_cmd": "./check %s quick" % pid,
            "thorough_cmd": "./check %s thorough" % pid,
            "evidence_file": "/verif/evidence/%s.json" % pid,
            "replay_cmd_template": "./check %s --replay {path}" % pid,
            "engine": "vf",
            "level_claimed": {"category": c["cat"], "text": c["text"], "design_ref": c["ref"]},
            "level_note": c["note"],
            "technique": c["tech"],
        })
    na = [{"property_id": p, "reason": NA.get(p, "check not built yet in this round (planned, see DESIGN.md §8); no claim is made")}
          for p in ALL if p not in CHECKS]
    m = {
        "version": 1,
        "setup_cmd": "./setup.sh",
        "hooks": {"guard": "KLONGPY_VERIF", "enable": "no source hooks are needed: monitors attach from the harness by attribute assignment, sys.monitoring, owned loops/streams and strace; KLONGPY_VERIF is reserved and unused",
                  "baseline_off_cmd": "cd /repo && /venv/bin/python -m pytest -ra -q -p no:cacheprovider --timeout=900 --continue-on-collection-errors",
                  "source_commits": [], "add_only": True},
        "engines": [{"name": "vf", "path": "/verif/vf", "serves_properties": sorted(CHECKS), "kind_free_text": "runtime monitoring: generated/hostile workloads against the real klongpy code with reference-model, differential, history and invariant oracles; sharded over subprocesses"}],
        "checks": checks,
        "not_applicable": na,
        "notes": "Exit codes: 0 held on everything observed, 1 VIOLATION, 2 INCONCLUSIVE (monitor not reached / watchdog). Genuine defects repaired in /repo are listed as 'fixed:' lines in known_findings.json.",
    }
    json.dump(m, open(os.path.join(HERE, "MANIFEST.json"), "w"), indent=1)
    print("wrote MANIFEST.json with", len(checks), "checks;", len(na), "not claimed")

NA = {}
if __name__ == "__main__":
    main()
