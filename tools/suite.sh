#!/bin/bash
# tools/suite.sh: run the repository's own test suite against /repo's working tree (8 workers); prints the summary line and any failures
cd /repo && PYTHONPATH=/repo /venv/bin/python -m pytest -q -p no:cacheprovider --timeout=900 -n 8 -W ignore 2>&1 | grep -E "^FAILED|^ERROR|passed|failed" | head -20
