#!/bin/bash
# tools/trymut.sh <patch.diff> <ID> [tier]  - run a check against a scratch copy of /repo with a patch applied
set -u
patch=$(readlink -f "$1"); id=$2; tier=${3:-quick}
d=$(mktemp -d /dev/shm/klongpy-mut-XXXXXX)
rsync -a --exclude .git --exclude '__pycache__' /repo/ "$d/"
( cd "$d" && patch -p1 -s < "$patch" ) || { echo "patch failed"; rm -rf "$d"; exit 9; }
cd /verif
VERIF_REPO="$d" ./check "$id" "$tier" 2>&1 | grep -v "^KNOWN-FINDING" | cut -c1-${CUT:-260} | tail -${TAIL:-6}
rc=${PIPESTATUS[0]}
rm -rf "$d"
echo "exit=$rc"
