#!/bin/bash
# tools/confirm_mut.sh <name e.g. C11a>: confirm a sub-agent's seeded change myself in a scratch copy:
#  (1) demo passes on unchanged /repo  (2) patch applies, existing suite passes  (3) demo fails with the patch
set -u
name=$1; src=/tmp/mut-$name
d=$(mktemp -d /dev/shm/klongpy-confirm-XXXXXX)
rsync -a --exclude .git --exclude '__pycache__' /repo/ "$d/"
echo "== demo on unchanged tree"; ( cd /tmp && PYTHONPATH=/repo timeout 300 /venv/bin/python $src/demo.py >/tmp/confirm-$name-base.log 2>&1 ); echo "exit=$?"
( cd "$d" && patch -p1 -s < $src/patch.diff ) || { echo "PATCH FAILED"; rm -rf "$d"; exit 9; }
echo "== suite with patch"; ( cd "$d" && PYTHONPATH="$d" /venv/bin/python -m pytest -q -p no:cacheprovider --timeout=900 -n 8 -W ignore 2>&1 | grep -E "^FAILED|passed|failed" | tail -5 )
echo "== demo with patch"; ( cd /tmp && PYTHONPATH="$d" timeout 300 /venv/bin/python $src/demo.py >/tmp/confirm-$name-mut.log 2>&1 ); echo "exit=$?"; tail -3 /tmp/confirm-$name-mut.log
rm -rf "$d"
