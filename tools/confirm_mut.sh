#!/bin/bash
# tools/confirm_mut.sh <name e.g. C11a>: confirm a sub-agent's seeded change myself in a scratch copy:
#  (1) demo passes on unchanged /repo  (2) patch applies, existing suite passes  (3) demo fails with the patch
set -u
name=$1; src=/tmp/mut-$name
d=$(mktemp -d /dev/shm/klongpy-confirm-XXXXXX)
rsync -a --exclude .git --exclude '__pycache__' /repo/ "$d/"
echo "== demo on unchanged tree"; ( cd /tmp && PYTHONPATH=/repo timeout 300 /venv/bin/python $src/demo.py >/tmp/confirm-$name-base.log 2>&1 ); echo "exit=$?"
( cd "$d" && patch -p1 -s < $src/patch.diff ) || { echo "PATCH FAILED"; rm -rf "$d"; exit 9; }
( cd "$d" && PYTHONPATH="$d" /venv/bin/python -m pytest -q -p no:cacheprovider --timeout=900 -n 8 -W ignore > /tmp/confirm-$name-suite.log 2>&1 )
SUITE=$(grep -E "^FAILED|passed|failed" /tmp/confirm-$name-suite.log | tr '\n' ' ')
# the two load-sensitive tests (10 s CLI subprocess timeout, interval-0 timer race) are re-run alone when they fail
if echo "$SUITE" | grep -q FAILED; then
  RERUN=$( cd "$d" && PYTHONPATH="$d" /venv/bin/python -m pytest -q -p no:cacheprovider $(grep -E "^FAILED" /tmp/confirm-$name-suite.log | sed -e 's/^FAILED //' -e 's/ - .*//' | tr '\n' ' ') -W ignore 2>&1 | tail -1 )
  SUITE="$SUITE || failed tests re-run alone: $RERUN"
fi
echo "== demo with patch"; ( cd /tmp && PYTHONPATH="$d" timeout 300 /venv/bin/python $src/demo.py >/tmp/confirm-$name-mut.log 2>&1 ); echo "exit=$?"; tail -3 /tmp/confirm-$name-mut.log
rm -rf "$d"
echo "SUITE: $SUITE"
