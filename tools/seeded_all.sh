#!/bin/bash
# tools/seeded_all.sh [tier]: apply every kept seeded change (seeded/<name>/patch.diff) to a scratch copy of /repo's working tree and run the property's check on it.
# Prints one line per change: caught (exit 1 with VIOLATION lines) / MISSED / patch-failed.  Scratch copies live in /dev/shm and are removed.
tier=${1:-quick}
cd /verif
for d in seeded/*/; do
  n=$(basename $d); id=${n%?}
  # a change can be outside the reach of its own property's check and reported by another one (meta.json: reported_by_check)
  other=$(python3 -c "import json,sys; print(json.load(open('$d/meta.json')).get('reported_by_check') or '')" 2>/dev/null)
  [ -n "$other" ] && id=$other
  out=$(tools/trymut.sh $d/patch.diff $id $tier 2>&1)
  if echo "$out" | grep -qi "patch failed"; then echo "$n patch-failed"; continue; fi
  v=$(echo "$out" | grep -c '^VIOLATION')
  rc=$(echo "$out" | grep -o 'exit=[0-9]*' | tail -1)
  if [ "$v" -gt 0 ]; then echo "$n caught ($v violation lines, $rc)"; else echo "$n MISSED ($rc) $(echo "$out" | grep -E '^(OK|INCONCLUSIVE)' | cut -c1-100)"; fi
done
