#!/usr/bin/env python3
"""Calibrates vf/ref/verbs.py against the original Klong test suite shipped in the repository:
every t(name; expr; expected) whose expr is one primitive application on literals is evaluated
THROUGH THE MODEL and must match the suite's expected value (as read by the real reader)."""
import re, sys
sys.path.insert(0, "/repo"); sys.path.insert(1, "/verif")
from vf.core import kl
from vf.core.canon import canon, same, brief
from vf.ref import verbs as V
from klongpy.types import KGFn, KGOp, KGSym, KGCall

k = kl.new()
src = open("/repo/tests/kgtests/language/test_suite.kg").read()
lines = [l for l in src.split("\n") if l.startswith("t(")]

def lit(x):
    """AST node -> canonical literal or None."""
    import numpy as np
    if isinstance(x, KGFn) and not isinstance(x, KGCall) and isinstance(x.a, KGOp) and x.a.a == "-" and x.a.arity == 1:
        v = lit(x.args)
        if v is not None and v[0] in ("I", "R"):
            return [v[0], -v[1]]
        return None
    if isinstance(x, (KGFn, KGSym)) and not (isinstance(x, KGSym) and False):
        if isinstance(x, KGSym):
            return None
        return None
    try:
        c = canon(x)
    except Exception:
        return None
    if c[0] in ("F", "X", "N"):
        return None
    return c

tot = agree = unspec = 0
bad = []
for l in lines:
    m = re.match(r't\("((?:[^"]|"")*)"\s*;\s*(.*);\s*([^;]*)\)\s*$', l)
    if not m:
        continue
    expr, expected = m.group(2).strip(), m.group(3).strip()
    try:
        prog = k.prog(expr)[1]
    except Exception:
        continue
    if len(prog) != 1:
        continue
    node = prog[0]
    if not (isinstance(node, KGFn) and not isinstance(node, KGCall) and isinstance(node.a, KGOp)):
        continue
    op, ar = node.a.a, node.a.arity
    args = node.args if isinstance(node.args, list) else [node.args]
    cs = [lit(a) for a in args]
    if any(c is None for c in cs) or len(cs) != ar:
        continue
    table = V.MONADS if ar == 1 else V.DYADS
    if op not in table:
        continue
    try:
        want = canon(k(expected))
    except Exception:
        continue
    tot += 1
    got = table[op](*cs)
    if got is V.UNSPEC:
        unspec += 1
        bad.append(("UNSPEC", l, None))
        continue
    if isinstance(got, V.Check):
        ok = got.ok(want)
    else:
        ok = same(got, want, "match") is None
    if ok:
        agree += 1
    else:
        bad.append(("DIFF", l, brief(got) if not isinstance(got, V.Check) else got.text))
print("suite lines with one primitive application on literals:", tot, "model agrees:", agree, "model says UNSPEC:", unspec)
for kind, l, g in bad:
    print(kind, l[:110], "| model:", g)
