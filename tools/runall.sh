#!/bin/bash
# tools/runall.sh <tier> <seed> [ids...]: run every registered check on /repo's working tree, one after the other; prints one line per check
tier=${1:-quick}; seed=${2:-0}; shift 2
ids=${@:-$(seq -f "C%02g" 1 20)}
for id in $ids; do
  s=$(date +%s)
  VERIF_SEED=$seed ./check $id $tier > /tmp/runall.$id.$tier.$seed.out 2>&1; rc=$?
  e=$(( $(date +%s) - s ))
  echo "$id $tier seed=$seed exit=$rc ${e}s $(grep -c '^VIOLATION' /tmp/runall.$id.$tier.$seed.out) violations; $(grep -E '^(OK|INCONCLUSIVE)' /tmp/runall.$id.$tier.$seed.out | cut -c1-120)"
done
